// irx — LLVM-IR abstract interpreter (byte-granular taint and write effects), DESIGN §3.2. Grown from the design-phase prototype.
#include "llvm/ADT/PostOrderIterator.h"
#include "llvm/IR/CFG.h"
#include "llvm/IR/Constants.h"
#include "llvm/IR/DataLayout.h"
#include "llvm/IR/DebugInfoMetadata.h"
#include "llvm/IR/GetElementPtrTypeIterator.h"
#include "llvm/IR/InlineAsm.h"
#include "llvm/IR/Instructions.h"
#include "llvm/IR/IntrinsicInst.h"
#include "llvm/IR/LLVMContext.h"
#include "llvm/IR/Module.h"
#include "llvm/IR/Operator.h"
#include "llvm/IRReader/IRReader.h"
#include "llvm/Support/SourceMgr.h"
#include "llvm/Support/raw_ostream.h"
#include <algorithm>
#include <cstdlib>
#include <map>
#include <memory>
#include <numeric>
#include <regex>
#include <set>
#include <string>
#include <vector>
using namespace llvm;

typedef uint32_t Taint; // 0 clean, else origin id

struct Target {
  int obj;
  int64_t off;
  int64_t stride;
  int64_t lo = 0;
  int64_t hi = INT64_MAX; // stride 0 exact, else off + k*stride; [lo,hi) sub-object extent
  Target(int o, int64_t f, int64_t s) : obj(o), off(f), stride(s) {}
  Target(int o, int64_t f, int64_t s, int64_t l, int64_t h) : obj(o), off(f), stride(s), lo(l), hi(h) {}
  bool operator<(const Target &o) const { return std::tie(obj, off, stride, lo, hi) < std::tie(o.obj, o.off, o.stride, o.lo, o.hi); }
  bool operator==(const Target &o) const { return obj == o.obj && off == o.off && stride == o.stride && lo == o.lo && hi == o.hi; }
};

struct Val {
  Taint t = 0;
  Taint addrT = 0; // addrT: pointer computed from tainted index
  std::set<Target> pts;
  std::set<const Function *> fns;
  bool unkPtr = false;
  bool hasC = false;
  int64_t c = 0;
  bool isNull = false;
  bool operator==(const Val &o) const {
    return t == o.t && addrT == o.addrT && pts == o.pts && fns == o.fns && unkPtr == o.unkPtr && hasC == o.hasC && c == o.c &&
           isNull == o.isNull;
  }
};
// A taint value is an origin id (first secret marker that reached the value) in the low bits, plus the BLIND flag:
// "derived from the context's blinding state". The two are tracked independently so that the blinding taint can be
// cancelled where the algebra cancels it (the result of secp256k1_ecmult_gen) without losing a key taint.
static const Taint BLIND = 0x80000000u;
static Taint tj(Taint a, Taint b) {
  Taint na = a & ~BLIND, nb = b & ~BLIND;
  return (na ? na : nb) | ((a | b) & BLIND);
}
static std::string originText(Taint t);
static void normPts(std::set<Target> &pts) {
  std::map<int, std::vector<Target>> by;
  for (auto &t : pts) by[t.obj].push_back(t);
  bool ch = false;
  for (auto &kv : by) {
    if (kv.second.size() > 3) { ch = true; }
  }
  if (!ch) return;
  std::set<Target> out;
  for (auto &kv : by) {
    auto &v = kv.second;
    if (v.size() <= 3) {
      for (auto &t : v) out.insert(t);
      continue;
    }
    int64_t g = 0;
    int64_t base = v[0].off;
    int64_t lo = INT64_MAX, hi = 0;
    for (auto &t : v) {
      g = std::gcd(g, t.stride);
      g = std::gcd(g, (int64_t)std::llabs(t.off - base));
      lo = std::min(lo, t.lo);
      hi = std::max(hi, t.hi);
    }
    if (g == 0) g = 1;
    int64_t off = ((base % g) + g) % g;
    out.insert(Target(kv.first, off, g, lo, hi));
  }
  pts = out;
}
static Val joinV(const Val &a, const Val &b) {
  Val r;
  r.t = tj(a.t, b.t);
  r.addrT = tj(a.addrT, b.addrT);
  r.pts = a.pts;
  r.pts.insert(b.pts.begin(), b.pts.end());
  r.fns = a.fns;
  r.fns.insert(b.fns.begin(), b.fns.end());
  r.unkPtr = a.unkPtr || b.unkPtr;
  if (a.hasC && b.hasC && a.c == b.c) {
    r.hasC = true;
    r.c = a.c;
  }
  r.isNull = a.isNull && b.isNull;
  normPts(r.pts);
  return r;
}

struct ObjMem {
  int64_t size;
  std::vector<Taint> bytes;
  std::map<int64_t, Val> slots;
  std::map<int64_t, std::pair<int64_t, int>> ic; // offset -> (constant integer stored there, width in bytes); exact stores only
  Taint all = 0; // 'all' for unknown-size objects
  bool operator==(const ObjMem &o) const { return size == o.size && bytes == o.bytes && slots == o.slots && ic == o.ic && all == o.all; }
};
typedef std::shared_ptr<const ObjMem> OM;
struct State {
  std::map<int, OM> m;
  bool bottom = true;
};

struct ObjInfo {
  std::string name;
  int64_t size;
  bool summary;
};
static std::vector<ObjInfo> objs;
static int newObj(const std::string &n, int64_t size, bool summary) {
  objs.push_back({n, size, summary});
  return (int)objs.size() - 1;
}
static OM freshMem(int64_t size) {
  auto p = std::make_shared<ObjMem>();
  p->size = size;
  if (size > 0 && size <= (1 << 20)) p->bytes.assign(size, 0);
  return p;
}

static bool stateEq(const State &a, const State &b) {
  if (a.bottom != b.bottom) return false;
  if (a.m.size() != b.m.size()) return false;
  auto i = a.m.begin();
  auto j = b.m.begin();
  for (; i != a.m.end(); ++i, ++j) {
    if (i->first != j->first) return false;
    if (i->second != j->second && !(*i->second == *j->second)) return false;
  }
  return true;
}
static OM joinM(const OM &a, const OM &b) {
  if (a == b || *a == *b) return a;
  auto r = std::make_shared<ObjMem>(*a);
  for (size_t k = 0; k < r->bytes.size() && k < b->bytes.size(); k++) r->bytes[k] = tj(r->bytes[k], b->bytes[k]);
  r->all = tj(a->all, b->all);
  for (auto &kv : b->slots) {
    auto it = r->slots.find(kv.first);
    if (it == r->slots.end())
      r->slots[kv.first] = kv.second;
    else
      it->second = joinV(it->second, kv.second);
  }
  for (auto it = r->ic.begin(); it != r->ic.end();) {
    auto jt = b->ic.find(it->first);
    if (jt == b->ic.end() || jt->second != it->second)
      it = r->ic.erase(it);
    else
      ++it;
  }
  return r;
}
static OM baseOf(int obj);
static State joinS(const State &a, const State &b) {
  if (a.bottom) return b;
  if (b.bottom) return a;
  State r;
  r.bottom = false;
  r.m = a.m;
  for (auto &kv : r.m) {
    if (!b.m.count(kv.first)) kv.second = joinM(kv.second, baseOf(kv.first));
  }
  for (auto &kv : b.m) {
    auto it = r.m.find(kv.first);
    if (it == r.m.end())
      r.m[kv.first] = joinM(kv.second, baseOf(kv.first));
    else
      it->second = joinM(it->second, kv.second);
  }
  return r;
}

struct Report {
  std::string kind, where, func, chain;
  Taint origin;
  uint64_t seq;
};
static std::map<std::string, Report> reports;
static std::map<Taint, std::string> originName;
static std::vector<std::string> callStack;
static uint64_t nExec = 0, nInstr = 0, nSelectSecret = 0, nDeclassify = 0, nSources = 0;
static bool optTaintBlinding = false;
static std::set<std::string> unknownExt;
static const DataLayout *DL;
static std::map<const GlobalVariable *, int> globalObj;
static State *GS; // current state pointer for helpers

static std::string locOf(const Instruction &I) {
  if (auto &d = I.getDebugLoc()) {
    std::string s;
    raw_string_ostream os(s);
    auto *sc = cast<DIScope>(d.getScope());
    os << sc->getFilename() << ":" << d.getLine();
    DILocation *ia = d.getInlinedAt();
    (void)ia;
    return os.str();
  }
  return "?";
}
static void report(const char *kind, const Instruction &I, Taint o) {
  std::string w = locOf(I);
  std::string key = std::string(kind) + "@" + w + "@" + I.getFunction()->getName().str();
  if (reports.count(key)) return;
  std::string ch;
  for (auto &s : callStack) {
    ch += s;
    ch += " > ";
  }
  reports[key] = {kind, w, I.getFunction()->getName().str(), ch, o, nInstr};
}

// ---- memory helpers
extern std::map<int, OM> baseMem_dummy;
static std::map<int, OM> baseMem; // immutable initial contents (globals, fresh objects)
static OM baseOf(int obj) {
  auto it = baseMem.find(obj);
  if (it == baseMem.end()) {
    baseMem[obj] = freshMem(objs[obj].size);
    it = baseMem.find(obj);
  }
  return it->second;
}
// ---- write-effect recording (client C20): first real store into each abstract object
static const Instruction *curInst = nullptr;
static bool modelNoWrite = false; // set while a taint-only model (declassify / markers) edits memory
struct WriteRec {
  std::string where, func, chain;
};
static std::map<int, WriteRec> writtenAt;
static void noteWrite(int obj) {
  if (modelNoWrite || !curInst || writtenAt.count(obj)) return;
  std::string ch;
  for (auto &s : callStack) {
    ch += s;
    ch += " > ";
  }
  writtenAt[obj] = {locOf(*curInst), curInst->getFunction()->getName().str(), ch};
}
static ObjMem *mut(State &S, int obj) {
  noteWrite(obj);
  auto it = S.m.find(obj);
  std::shared_ptr<ObjMem> p;
  if (it == S.m.end()) {
    p = std::make_shared<ObjMem>(*baseOf(obj));
    S.m[obj] = p;
  } else {
    p = std::make_shared<ObjMem>(*it->second);
    it->second = p;
  }
  return p.get();
}
static const ObjMem *get(State &S, int obj) {
  auto it = S.m.find(obj);
  if (it == S.m.end()) return baseOf(obj).get();
  return it->second.get();
}
template <class F> static void forBytes(const ObjMem *m, const Target &t, int64_t n, F f) { // visit byte indices addressed
  if (m->bytes.empty()) {
    f(-1);
    return;
  }
  int64_t sz = m->bytes.size();
  int64_t lo = std::max<int64_t>(0, t.lo), hi = std::min<int64_t>(sz, t.hi);
  if (t.stride == 0) {
    for (int64_t j = 0; j < n; j++) {
      int64_t k = t.off + j;
      if (k >= 0 && k < sz) f(k);
    }
  } else {
    int64_t st = t.stride;
    int64_t base = ((t.off % st) + st) % st;
    if (n >= st) {
      for (int64_t k = lo; k < hi; k++) f(k);
    } else {
      int64_t b0 = lo - ((lo - base) % st + st) % st;
      for (int64_t b = b0 - st; b < hi; b += st)
        for (int64_t j = 0; j < n; j++) {
          int64_t k = b + j;
          if (k >= lo && k < hi) f(k);
        }
    }
  }
}
static Taint readT(State &S, const Val &p, int64_t n) {
  Taint t = 0;
  for (auto &tg : p.pts) {
    const ObjMem *m = get(S, tg.obj);
    if (n < 0) {
      int64_t sz = m->bytes.size();
      int64_t lo = std::max<int64_t>(0, tg.stride == 0 ? std::max(tg.off, tg.lo) : tg.lo), hi = std::min<int64_t>(sz, tg.hi);
      for (int64_t k = lo; k < hi; k++) t = tj(t, m->bytes[k]);
      t = tj(t, m->all);
      continue;
    }
    forBytes(m, tg, n, [&](int64_t k) {
      if (k < 0)
        t = tj(t, m->all);
      else
        t = tj(t, m->bytes[k]);
    });
  }
  return t;
}
static void killIC(ObjMem *m, const Target &tg, int64_t n) {
  if (m->ic.empty()) return;
  if (tg.stride == 0 && n >= 0) {
    for (auto it = m->ic.begin(); it != m->ic.end();) {
      if (it->first + it->second.second > tg.off && it->first < tg.off + n)
        it = m->ic.erase(it);
      else
        ++it;
    }
  } else {
    for (auto it = m->ic.begin(); it != m->ic.end();) {
      if (it->first + it->second.second > tg.lo && it->first < tg.hi)
        it = m->ic.erase(it);
      else
        ++it;
    }
  }
}
static void writeT(State &S, const Val &p, int64_t n, Taint t, bool forceWeak = false) {
  bool strong = !forceWeak && p.pts.size() == 1 && p.pts.begin()->stride == 0 && !objs[p.pts.begin()->obj].summary && n >= 0 && !p.unkPtr;
  for (auto &tg : p.pts) {
    ObjMem *m = mut(S, tg.obj);
    if (!modelNoWrite) killIC(m, tg, n);
    if (n < 0) {
      int64_t sz = m->bytes.size();
      int64_t lo = std::max<int64_t>(0, tg.stride == 0 ? std::max(tg.off, tg.lo) : tg.lo), hi = std::min<int64_t>(sz, tg.hi);
      for (int64_t k = lo; k < hi; k++) m->bytes[k] = tj(m->bytes[k], t);
      if (m->bytes.empty()) m->all = tj(m->all, t);
      continue;
    }
    forBytes(m, tg, n, [&](int64_t k) {
      if (k < 0) {
        m->all = strong ? t : tj(m->all, t);
      } else
        m->bytes[k] = strong ? t : tj(m->bytes[k], t);
    });
    if (strong) { // kill slots overlapping
      for (auto it = m->slots.begin(); it != m->slots.end();) {
        if (it->first + 8 > tg.off && it->first < tg.off + n)
          it = m->slots.erase(it);
        else
          ++it;
      }
    }
  }
}
static void writeSlot(State &S, const Val &p, const Val &v) {
  bool strong = p.pts.size() == 1 && p.pts.begin()->stride == 0 && !objs[p.pts.begin()->obj].summary && !p.unkPtr;
  for (auto &tg : p.pts) {
    ObjMem *m = mut(S, tg.obj);
    if (tg.stride == 0) {
      if (strong)
        m->slots[tg.off] = v;
      else {
        auto it = m->slots.find(tg.off);
        if (it == m->slots.end())
          m->slots[tg.off] = v;
        else
          it->second = joinV(it->second, v);
      }
    } else { // unknown slot: join into a wildcard slot at key of (off mod stride) marked by negative key
      int64_t key = -1000000 - (((tg.off % tg.stride) + tg.stride) % tg.stride);
      auto it = m->slots.find(key);
      if (it == m->slots.end())
        m->slots[key] = v;
      else
        it->second = joinV(it->second, v);
    }
  }
}
static Val readSlot(State &S, const Val &p) {
  Val r;
  bool first = true;
  for (auto &tg : p.pts) {
    const ObjMem *m = get(S, tg.obj);
    if (tg.stride == 0) {
      auto it = m->slots.find(tg.off);
      if (it != m->slots.end()) {
        r = first ? it->second : joinV(r, it->second);
        first = false;
      } // also wildcard slots
      for (auto &kv : m->slots)
        if (kv.first <= -1000000) {
          r = first ? kv.second : joinV(r, kv.second);
          first = false;
        }
    } else {
      for (auto &kv : m->slots) {
        r = first ? kv.second : joinV(r, kv.second);
        first = false;
      }
    }
  }
  if (first) { r.unkPtr = true; }
  r.hasC = false;
  return r;
}
static void copyMem(State &S, const Val &dst, const Val &src, int64_t n) { // byte-wise when both exact single
  if (n >= 0 && dst.pts.size() == 1 && src.pts.size() == 1 && dst.pts.begin()->stride == 0 && src.pts.begin()->stride == 0 &&
      !objs[dst.pts.begin()->obj].summary) {
    auto d = *dst.pts.begin();
    auto s = *src.pts.begin();
    const ObjMem *sm = get(S, s.obj);
    std::vector<Taint> tmp(n, 0);
    if (sm->bytes.empty())
      std::fill(tmp.begin(), tmp.end(), sm->all);
    else
      for (int64_t j = 0; j < n; j++) {
        int64_t k = s.off + j;
        if (k >= 0 && k < (int64_t)sm->bytes.size()) tmp[j] = sm->bytes[k];
      }
    std::map<int64_t, Val> sl;
    for (auto &kv : sm->slots)
      if (kv.first >= s.off && kv.first < s.off + n)
        sl[kv.first - s.off] = kv.second;
      else if (kv.first <= -1000000)
        sl[kv.first] = kv.second;
    std::map<int64_t, std::pair<int64_t, int>> icl;
    for (auto &kv : sm->ic)
      if (kv.first >= s.off && kv.first + kv.second.second <= s.off + n) icl[kv.first - s.off] = kv.second;
    ObjMem *dm = mut(S, d.obj);
    killIC(dm, d, n);
    for (auto &kv : icl) dm->ic[d.off + kv.first] = kv.second;
    if (dm->bytes.empty()) {
      Taint a = 0;
      for (auto x : tmp) a = tj(a, x);
      dm->all = tj(dm->all, a);
    } else
      for (int64_t j = 0; j < n; j++) {
        int64_t k = d.off + j;
        if (k >= 0 && k < (int64_t)dm->bytes.size()) dm->bytes[k] = tmp[j];
      }
    for (auto it = dm->slots.begin(); it != dm->slots.end();) {
      if (it->first >= d.off && it->first < d.off + n)
        it = dm->slots.erase(it);
      else
        ++it;
    }
    for (auto &kv : sl) {
      if (kv.first <= -1000000)
        dm->slots[kv.first] = kv.second;
      else
        dm->slots[d.off + kv.first] = kv.second;
    }
    return;
  }
  Taint t = readT(S, src, n);
  writeT(S, dst, n, t, true); // weak; slots: join all src slots into dst wildcard
  for (auto &sg : src.pts) {
    const ObjMem *sm = get(S, sg.obj);
    auto slots = sm->slots;
    for (auto &kv : slots) {
      Val wp = dst;
      for (auto &dg : dst.pts) {
        ObjMem *dm = mut(S, dg.obj);
        int64_t key = -1000000;
        auto it = dm->slots.find(key);
        if (it == dm->slots.end())
          dm->slots[key] = kv.second;
        else
          it->second = joinV(it->second, kv.second);
      }
    }
  }
}

struct Frame {
  const Function *F;
  std::map<const Value *, Val> env;
  std::map<const AllocaInst *, int> allocas;
};

static Val constVal(const Constant *C, Frame &fr);
static void initGlobal(ObjMem *M, int obj, const Constant *C, int64_t off) {
  if (!C) return;
  if (isa<ConstantAggregateZero>(C) || isa<UndefValue>(C)) return;
  Type *T = C->getType();
  if (auto *CS = dyn_cast<ConstantStruct>(C)) {
    auto *SL = DL->getStructLayout(cast<StructType>(T));
    for (unsigned i = 0; i < CS->getNumOperands(); i++) initGlobal(M, obj, CS->getOperand(i), off + SL->getElementOffset(i));
    return;
  }
  if (auto *CA = dyn_cast<ConstantArray>(C)) {
    int64_t es = DL->getTypeAllocSize(CA->getType()->getElementType());
    for (unsigned i = 0; i < CA->getNumOperands(); i++) initGlobal(M, obj, CA->getOperand(i), off + i * es);
    return;
  }
  if (T->isPointerTy()) {
    Frame dummy;
    Val v = constVal(C, dummy);
    M->slots[off] = v;
  }
}
static int objOfGlobal(const GlobalVariable *G) {
  auto it = globalObj.find(G);
  if (it != globalObj.end()) return it->second;
  int64_t sz = G->getValueType()->isSized() ? (int64_t)DL->getTypeAllocSize(G->getValueType()) : 0;
  int o = newObj(("@" + G->getName()).str(), sz, false);
  globalObj[G] = o;
  if (G->hasInitializer()) {
    auto p = std::make_shared<ObjMem>();
    p->size = sz;
    if (sz > 0 && sz <= 4096) p->bytes.assign(sz, 0);
    baseMem[o] = p;
    initGlobal(p.get(), o, G->getInitializer(), 0);
  }
  return o;
}
static Val constVal(const Constant *C, Frame &fr) {
  Val v;
  if (auto *CI = dyn_cast<ConstantInt>(C)) {
    if (CI->getBitWidth() <= 64) {
      v.hasC = true;
      v.c = CI->getSExtValue();
    }
    return v;
  }
  if (isa<ConstantPointerNull>(C)) {
    v.isNull = true;
    v.hasC = true;
    v.c = 0;
    return v;
  }
  if (auto *F = dyn_cast<Function>(C)) {
    v.fns.insert(F);
    return v;
  }
  if (auto *G = dyn_cast<GlobalVariable>(C)) {
    v.pts.insert({objOfGlobal(G), 0, 0});
    return v;
  }
  if (auto *CE = dyn_cast<ConstantExpr>(C)) {
    if (CE->getOpcode() == Instruction::BitCast || CE->getOpcode() == Instruction::AddrSpaceCast ||
        CE->getOpcode() == Instruction::PtrToInt || CE->getOpcode() == Instruction::IntToPtr)
      return constVal(CE->getOperand(0), fr);
    if (auto *GEP = dyn_cast<GEPOperator>(CE)) {
      Val b = constVal(cast<Constant>(GEP->getPointerOperand()), fr);
      APInt off(64, 0);
      if (GEP->accumulateConstantOffset(*DL, off)) {
        Val r;
        for (auto t : b.pts) {
          t.off += off.getSExtValue();
          r.pts.insert(t);
        }
        return r;
      }
      Val r;
      for (auto t : b.pts) {
        t.stride = 1;
        r.pts.insert(t);
      }
      return r;
    }
  }
  return v;
}
static Val getV(Frame &fr, const Value *V) {
  if (auto *C = dyn_cast<Constant>(V)) return constVal(C, fr);
  auto it = fr.env.find(V);
  if (it != fr.env.end()) return it->second;
  return Val();
}

static Val analyze(const Function *F, std::vector<Val> args, State &S, int depth);

static int64_t typeSize(Type *T) { return T->isSized() ? (int64_t)DL->getTypeStoreSize(T) : -1; }
static bool isNonNullPtr(const Val &v) { return !v.isNull && (!v.pts.empty() || !v.fns.empty()) && !v.unkPtr; }

static void taintAllReachable(State &S, const Val &p, Taint t) { writeT(S, p, -1, t, true); }

// Option --taint-blinding: treat the context's blinding state (scalar_offset, ge_offset.{x,y}, proj_blind) as secret
// from the moment the context is created, i.e. analyse every API on a *randomized* context.
static std::string originText(Taint t) {
  std::string s;
  if (t & ~BLIND) s = originName[t & ~BLIND];
  if (t & BLIND) s += s.empty() ? "context blinding state (randomized context)" : " + context blinding state";
  return s;
}
// the blinding cancels algebraically in the result of the fixed-base multiplication: nG = comb(n + offset) + ge_offset
static void stripBlind(State &S, const Val &p, int64_t n) {
  modelNoWrite = true;
  for (auto &tg : p.pts) {
    ObjMem *m = mut(S, tg.obj);
    for (int64_t j = 0; j < n; j++) {
      int64_t k = tg.off + j;
      if (k >= 0 && k < (int64_t)m->bytes.size()) m->bytes[k] &= ~BLIND;
    }
    m->all &= ~BLIND;
  }
  modelNoWrite = false;
}
static Taint newOrigin(const std::string &name) {
  static Taint next = 100000;
  originName[next] = name;
  return next++;
}
static void taintBlinding(State &S, const Val &ctxp, const CallBase &CB) {
  LLVMContext &C = CB.getContext();
  StructType *G = StructType::getTypeByName(C, "struct.secp256k1_ecmult_gen_context");
  StructType *GE = StructType::getTypeByName(C, "struct.secp256k1_ge");
  if (!G || !GE || G->getNumElements() != 4 || GE->getNumElements() != 3) {
    errs() << "irx: ecmult_gen_context layout not recognised (anchor moved)\n";
    exit(2);
  }
  auto *SL = DL->getStructLayout(G);
  auto *GL = DL->getStructLayout(GE);
  static Taint o = BLIND;
  struct R {
    int64_t off, len;
  } rs[4] = {{(int64_t)SL->getElementOffset(1), (int64_t)DL->getTypeAllocSize(G->getElementType(1))},
             {(int64_t)(SL->getElementOffset(2) + GL->getElementOffset(0)), (int64_t)DL->getTypeAllocSize(GE->getElementType(0))},
             {(int64_t)(SL->getElementOffset(2) + GL->getElementOffset(1)), (int64_t)DL->getTypeAllocSize(GE->getElementType(1))},
             {(int64_t)SL->getElementOffset(3), (int64_t)DL->getTypeAllocSize(G->getElementType(3))}};
  modelNoWrite = true;
  for (auto &r : rs) {
    Val p;
    for (auto t : ctxp.pts) {
      t.off += r.off;
      t.lo = t.off;
      t.hi = t.off + r.len;
      p.pts.insert(t);
    }
    writeT(S, p, r.len, o);
  }
  modelNoWrite = false;
}

static Val doCall(const CallBase &CB, Frame &fr, State &S, int depth, bool &noret) {
  noret = false;
  Val rv;
  std::vector<Val> args;
  for (auto &a : CB.args()) args.push_back(getV(fr, a.get()));
  if (CB.isInlineAsm()) {
    auto *IA = cast<InlineAsm>(CB.getCalledOperand());
    std::string s = IA->getAsmString();
    if (s.empty()) return rv;
    // static effect extraction from the template: store bases = registers used as base of a destination memory operand
    std::set<std::string> storeRegs;
    {
      std::regex re(",\\s*-?[0-9]*\\(%(r[a-z0-9]+)\\)\\s*(\n|$)");
      for (auto it = std::sregex_iterator(s.begin(), s.end(), re); it != std::sregex_iterator(); ++it) storeRegs.insert((*it)[1]);
      std::regex br("(^|\n)\\s*(j[a-z]+|call|loop[a-z]*|ret)\\b");
      if (std::regex_search(s, br)) report("asm-control-flow", CB, 1);
    }
    auto CIs = IA->ParseConstraints();
    bool memClobber = false;
    for (auto &ci : CIs)
      if (ci.Type == InlineAsm::isClobber)
        for (auto &c : ci.Codes)
          if (c == "{memory}") memClobber = true;
    Taint t = 0;
    unsigned ai = 0;
    std::vector<std::pair<Val, bool>> writes; // (pointer, isWritten)
    std::vector<std::string> outRegs;
    for (auto &ci : CIs) {
      if (ci.Type == InlineAsm::isOutput) {
        std::string reg;
        for (auto &c : ci.Codes)
          if (c.size() > 2 && c[0] == '{') reg = "r" + c.substr(1, c.size() - 2);
        outRegs.push_back(reg);
        if (ci.isIndirect) {
          writes.push_back({args[ai], true});
          ai++;
        }
      }
    }
    for (auto &ci : CIs) {
      if (ci.Type != InlineAsm::isInput) continue;
      if (ai >= args.size()) break;
      Val a = args[ai++];
      t = tj(t, a.t);
      if (!a.pts.empty()) {
        std::string reg;
        for (auto &c : ci.Codes) {
          if (c.size() > 2 && c[0] == '{')
            reg = "r" + c.substr(1, c.size() - 2);
          else if (!c.empty() && isdigit(c[0])) {
            unsigned oi = atoi(c.c_str());
            if (oi < outRegs.size()) reg = outRegs[oi];
          }
        }
        t = tj(t, readT(S, a, -1));
        bool w = memClobber && !reg.empty() && storeRegs.count(reg);
        writes.push_back({a, w});
      }
    }
    for (auto &w : writes)
      if (w.second) writeT(S, w.first, -1, t, true);
    rv.t = t;
    if (CB.getType()->isPointerTy() && !args.empty()) { /* tied pointer output keeps pointing where the tied input did */
      for (auto &ci : CIs) (void)ci;
      for (auto &a : args)
        if (!a.pts.empty()) {}
      rv.pts = args.back().pts;
    }
    return rv;
  }
  std::set<const Function *> callees;
  const Function *D = CB.getCalledFunction();
  if (D)
    callees.insert(D);
  else {
    Val cv = getV(fr, CB.getCalledOperand());
    if (cv.t || cv.addrT) report("tainted-callee", CB, tj(cv.t, cv.addrT));
    callees = cv.fns;
    if (callees.empty()) {
      unknownExt.insert("<indirect:" + locOf(CB) + ">");
      return rv;
    }
  }
  bool first = true;
  State out;
  out.bottom = true;
  State in = S;
  for (auto *F : callees) {
    State cur = in;
    Val r;
    StringRef n = F->getName();
    if (n == "secp256k1_declassify" || n == "__verif_mem_define") {
      size_t pi = n == "secp256k1_declassify" ? 1 : 0;
      Val p = args[pi];
      Val l = args[pi + 1];
      modelNoWrite = true;
      if (l.hasC) writeT(cur, p, l.c, 0); /* unknown length: cannot kill */
      modelNoWrite = false;
      nDeclassify++;
      r.hasC = true;
      r.c = 1;
    } else if (n == "__verif_mem_undefine") {
      Val p = args[0];
      Val l = args[1];
      static Taint next = 1;
      static std::map<std::string, Taint> ids;
      std::string w = locOf(CB);
      if (!ids.count(w)) {
        ids[w] = next;
        originName[next] = w;
        next++;
      }
      Taint o = ids[w];
      modelNoWrite = true;
      if (l.hasC)
        writeT(cur, p, l.c, o);
      else
        writeT(cur, p, -1, o, true);
      modelNoWrite = false;
      nSources++;
      r.hasC = true;
      r.c = 1;
    } else if (n == "__verif_mem_check") {
      r.hasC = true;
      r.c = 0;
    } else if (n.startswith("secp256k1_memcmp_var") && args.size() == 3 &&
               args[2].hasC) { /* model of the repository's byte-compare loop: reads exactly n bytes of each operand and branches on them */
      r.t = tj(readT(cur, args[0], args[2].c), readT(cur, args[1], args[2].c));
      if (r.t) report("tainted-branch(memcmp_var)", CB, r.t);
    } else if (F->isIntrinsic() || F->isDeclaration()) {
      if (n.startswith("llvm.memcpy") || n.startswith("llvm.memmove") || n == "memcpy" || n == "memmove") {
        Val l = args[2];
        if (l.t) report("tainted-length", CB, l.t);
        if (args[0].addrT || args[1].addrT) report("tainted-address", CB, tj(args[0].addrT, args[1].addrT));
        copyMem(cur, args[0], args[1], l.hasC ? l.c : -1);
        r = args[0];
      } else if (n.startswith("llvm.memset") || n == "memset") {
        Val l = args[2];
        if (l.t) report("tainted-length", CB, l.t);
        if (args[0].addrT) report("tainted-address", CB, args[0].addrT);
        writeT(cur, args[0], l.hasC ? l.c : -1, args[1].t, !l.hasC);
        r = args[0];
      } else if (n.startswith("llvm.dbg") || n.startswith("llvm.lifetime") || n == "free" || n == "fprintf" || n == "printf" ||
                 n == "fputs" || n == "fwrite" || n.startswith("llvm.va_") || n.startswith("llvm.stacksave") ||
                 n.startswith("llvm.stackrestore")) {
      } else if (n == "abort" || n == "exit") {
        noret = true;
        return rv;
      } else if (n == "malloc") {
        static std::map<std::string, int> sites;
        std::string w = locOf(CB);
        for (auto &s : callStack) w += "|" + s;
        int o;
        if (sites.count(w))
          o = sites[w];
        else {
          int64_t sz = args[0].hasC ? args[0].c : 0;
          o = newObj("heap@" + locOf(CB), sz, false);
          sites[w] = o;
        }
        r.pts.insert({o, 0, 0});
      } else if (n.startswith("llvm.")) {
        for (auto &a : args) r.t = tj(r.t, a.t);
        if (n.startswith("llvm.expect")) { r = args[0]; }
      } else {
        unknownExt.insert(n.str());
        for (auto &a : args) r.t = tj(r.t, a.t);
      }
    } else {
      r = analyze(F, args, cur, depth + 1);
      if (optTaintBlinding && (n == "secp256k1_context_create" || n == "secp256k1_context_preallocated_create")) taintBlinding(cur, r, CB);
      if (optTaintBlinding && n == "secp256k1_ecmult_gen" && args.size() == 3) {
        auto *PT = dyn_cast<PointerType>(F->getArg(1)->getType());
        if (PT && PT->getPointerElementType()->isSized()) stripBlind(cur, args[1], DL->getTypeAllocSize(PT->getPointerElementType()));
      }
    }
    out = joinS(out, cur);
    rv = first ? r : joinV(rv, r);
    first = false;
  }
  S = out;
  return rv;
}

static Val analyze(const Function *F, std::vector<Val> args, State &S, int depth) {
  nExec++;
  if ((nExec & 0xFFFFF) == 0) {
    errs() << "exec " << nExec << " instr " << nInstr << " objs " << objs.size() << " statesize " << S.m.size() << " in " << F->getName();
    for (auto &s : callStack) errs() << " <" << s;
    errs() << "\n";
  }
  if (depth > 60) {
    errs() << "depth exceeded at " << F->getName() << "\n";
    exit(2);
  }
  for (auto &s : callStack)
    if (s == F->getName()) {
      errs() << "recursion " << F->getName() << "\n";
      exit(2);
    }
  callStack.push_back(F->getName().str());
  Frame fr;
  fr.F = F;
  unsigned ai = 0;
  for (auto &A : F->args()) {
    if (ai < args.size()) fr.env[&A] = args[ai];
    ai++;
  }
  std::map<const BasicBlock *, State> in, outS;
  std::map<std::pair<const BasicBlock *, const BasicBlock *>, State> edge;
  ReversePostOrderTraversal<const Function *> RPOT(F);
  std::vector<const BasicBlock *> rpo(RPOT.begin(), RPOT.end());
  std::map<const BasicBlock *, int> rpoIdx;
  for (size_t i = 0; i < rpo.size(); i++) rpoIdx[rpo[i]] = i;
  Val retV;
  bool haveRet = false;
  State retS;
  retS.bottom = true;
  std::set<int> work;
  work.insert(0);
  in[rpo[0]] = S;
  in[rpo[0]].bottom = false;
  int iters = 0;
  while (!work.empty()) {
    int bi = *work.begin();
    work.erase(work.begin());
    const BasicBlock *BB = rpo[bi];
    if (++iters > 20000) {
      errs() << "no convergence in " << F->getName() << "\n";
      exit(2);
    }
    State cur;
    if (bi == 0)
      cur = in[BB];
    else {
      cur.bottom = true;
      for (auto *P : predecessors(BB)) {
        auto it = edge.find({P, BB});
        if (it != edge.end()) cur = joinS(cur, it->second);
      }
    }
    if (cur.bottom) continue;
    GS = &cur;
    bool stop = false;
    bool envCh = false;
    for (auto &I : *BB) {
      curInst = &I;
      nInstr++;
      Val r;
      bool setR = true;
      if (auto *AI = dyn_cast<AllocaInst>(&I)) {
        int o;
        auto it = fr.allocas.find(AI);
        if (it == fr.allocas.end()) {
          int64_t sz = -1;
          if (auto *CI = dyn_cast<ConstantInt>(AI->getArraySize())) sz = DL->getTypeAllocSize(AI->getAllocatedType()) * CI->getZExtValue();
          o = newObj((F->getName() + ":" + AI->getName()).str(), sz < 0 ? 0 : sz, false);
          fr.allocas[AI] = o;
        } else
          o = it->second;
        r.pts.insert({o, 0, 0});
      } else if (auto *LI = dyn_cast<LoadInst>(&I)) {
        Val p = getV(fr, LI->getPointerOperand());
        if (p.addrT || p.t) report("tainted-address", I, tj(p.addrT, p.t));
        int64_t n = typeSize(LI->getType());
        r.t = readT(cur, p, n);
        if (LI->getType()->isPointerTy()) {
          Val s = readSlot(cur, p);
          Taint t = r.t;
          r = s;
          r.t = tj(s.t, t);
        }
        if (!LI->getType()->isPointerTy() && LI->getType()->isIntegerTy() && !r.t && p.pts.size() == 1 && p.pts.begin()->stride == 0 && !p.unkPtr &&
            !objs[p.pts.begin()->obj].summary) {
          const ObjMem *m = get(cur, p.pts.begin()->obj);
          auto it = m->ic.find(p.pts.begin()->off);
          if (it != m->ic.end() && it->second.second == n) {
            r.hasC = true;
            r.c = it->second.first;
          }
        }
      } else if (auto *SI = dyn_cast<StoreInst>(&I)) {
        Val p = getV(fr, SI->getPointerOperand());
        Val v = getV(fr, SI->getValueOperand());
        if (p.addrT || p.t) report("tainted-address", I, tj(p.addrT, p.t));
        int64_t n = typeSize(SI->getValueOperand()->getType());
        writeT(cur, p, n, v.t);
        if (SI->getValueOperand()->getType()->isPointerTy()) writeSlot(cur, p, v);
        else if (SI->getValueOperand()->getType()->isIntegerTy() && v.hasC && !v.t && v.pts.empty() && p.pts.size() == 1 && p.pts.begin()->stride == 0 &&
                 !p.unkPtr && !objs[p.pts.begin()->obj].summary && n > 0 && n <= 8)
          mut(cur, p.pts.begin()->obj)->ic[p.pts.begin()->off] = {v.c, (int)n};
        setR = false;
      } else if (auto *G = dyn_cast<GetElementPtrInst>(&I)) {
        Val b = getV(fr, G->getPointerOperand());
        r = b;
        r.hasC = false;
        r.pts.clear();
        Taint it = 0;
        for (auto t : b.pts) {
          int64_t cur = t.off, lo = t.lo, hi = t.hi, stride = t.stride;
          bool exact = (t.stride == 0);
          gep_type_iterator GTI = gep_type_begin(G);
          for (auto OI = G->idx_begin(); OI != G->idx_end(); ++OI, ++GTI) {
            Val iv = getV(fr, OI->get());
            if (StructType *ST = GTI.getStructTypeOrNull()) {
              unsigned fi = cast<ConstantInt>(OI->get())->getZExtValue();
              int64_t fo = DL->getStructLayout(ST)->getElementOffset(fi);
              cur += fo;
              if (exact) {
                lo = cur;
                hi = cur + (int64_t)DL->getTypeAllocSize(ST->getElementType(fi));
              }
            } else {
              int64_t es = DL->getTypeAllocSize(GTI.getIndexedType());
              if (iv.hasC && !iv.t)
                cur += iv.c * es;
              else {
                exact = false;
                stride = stride ? std::gcd(stride, es) : es;
                it = tj(it, iv.t);
              }
            }
          }
          r.pts.insert(Target(t.obj, cur, stride, lo, hi));
        }
        if (b.pts.empty()) {
          for (auto OI = G->idx_begin(); OI != G->idx_end(); ++OI) {
            Val iv = getV(fr, OI->get());
            it = tj(it, iv.t);
          }
        }
        r.addrT = tj(b.addrT, it);
        normPts(r.pts);
      } else if (auto *BI = dyn_cast<BranchInst>(&I)) {
        setR = false;
        if (BI->isConditional()) {
          Val c = getV(fr, BI->getCondition());
          if (c.t) report("tainted-branch", I, c.t);
          for (unsigned s = 0; s < 2; s++) {
            if (c.hasC && !c.t) {
              bool takeTrue = c.c != 0;
              if ((s == 0) != takeTrue) continue;
            }
            auto *SB = BI->getSuccessor(s);
            auto &e = edge[{BB, SB}];
            State ne = joinS(e, cur);
            if (!stateEq(ne, e) || e.bottom || envCh) {
              e = ne;
              work.insert(rpoIdx[SB]);
            }
          }
        } else {
          auto *SB = BI->getSuccessor(0);
          auto &e = edge[{BB, SB}];
          State ne = joinS(e, cur);
          if (!stateEq(ne, e) || e.bottom || envCh) {
            e = ne;
            work.insert(rpoIdx[SB]);
          }
        }
      } else if (auto *SW = dyn_cast<SwitchInst>(&I)) {
        setR = false;
        Val c = getV(fr, SW->getCondition());
        if (c.t) report("tainted-branch", I, c.t);
        for (unsigned s = 0; s < SW->getNumSuccessors(); s++) {
          auto *SB = SW->getSuccessor(s);
          auto &e = edge[{BB, SB}];
          State ne = joinS(e, cur);
          if (!stateEq(ne, e) || e.bottom || envCh) {
            e = ne;
            work.insert(rpoIdx[SB]);
          }
        }
      } else if (auto *RI = dyn_cast<ReturnInst>(&I)) {
        setR = false;
        if (RI->getReturnValue()) {
          Val v = getV(fr, RI->getReturnValue());
          retV = haveRet ? joinV(retV, v) : v;
        }
        haveRet = true;
        retS = joinS(retS, cur);
      } else if (isa<UnreachableInst>(&I)) {
        setR = false;
        stop = true;
      } else if (auto *CB = dyn_cast<CallBase>(&I)) {
        bool noret = false;
        if (getenv("IRX_DEBUG") && F->getName() == getenv("IRX_DEBUG") && CB->getCalledFunction() &&
            !CB->getCalledFunction()->getName().startswith("llvm.")) {
          errs() << "@" << locOf(I) << " call " << CB->getCalledFunction()->getName() << " :";
          for (auto &kv : fr.allocas) {
            const ObjMem *m = get(cur, kv.second);
            unsigned nt = 0;
            Taint o = 0;
            for (auto b : m->bytes) {
              if (b) {
                nt++;
                o = o ? o : b;
              }
            }
            if (nt) errs() << " " << kv.first->getName() << "[" << nt << "/" << m->bytes.size() << " o=" << originName[o] << "]";
          }
          for (auto &kv : cur.m) {
            if (getenv("IRX_ALL") || objs[kv.first].name.rfind("heap", 0) == 0 || objs[kv.first].name[0] == '@') {
              unsigned nt = 0;
              int first = -1;
              for (size_t k = 0; k < kv.second->bytes.size(); k++)
                if (kv.second->bytes[k]) {
                  nt++;
                  if (first < 0) first = k;
                }
              if (nt) {
                errs() << " {" << objs[kv.first].name << "#" << kv.first << " " << nt << "/" << kv.second->bytes.size() << " first@"
                       << first;
                if (kv.second->bytes.size() == 132) {
                  errs() << " map:";
                  for (size_t k = 0; k < 132; k += 4) errs() << (kv.second->bytes[k] ? 'X' : '.');
                }
                errs() << "}";
              }
            }
          }
          errs() << "\n";
        }
        r = doCall(*CB, fr, cur, depth, noret);
        GS = &cur;
        if (noret) { stop = true; }
      } else if (auto *PN = dyn_cast<PHINode>(&I)) {
        bool f = true;
        for (unsigned k = 0; k < PN->getNumIncomingValues(); k++) {
          if (!edge.count({PN->getIncomingBlock(k), BB})) continue;
          Val v = getV(fr, PN->getIncomingValue(k));
          r = f ? v : joinV(r, v);
          f = false;
        }
      } else if (auto *SE = dyn_cast<SelectInst>(&I)) {
        Val c = getV(fr, SE->getCondition());
        Val a = getV(fr, SE->getTrueValue()), b = getV(fr, SE->getFalseValue());
        if (c.hasC && !c.t)
          r = c.c ? a : b;
        else {
          r = joinV(a, b);
          r.t = tj(r.t, c.t);
          if (c.t) nSelectSecret++;
        }
      } else if (auto *IC = dyn_cast<ICmpInst>(&I)) {
        Val a = getV(fr, IC->getOperand(0)), b = getV(fr, IC->getOperand(1));
        r.t = tj(tj(a.t, b.t), tj(a.addrT, b.addrT));
        if (!r.t) {
          if (a.hasC && b.hasC && !a.isNull && !b.isNull && a.pts.empty() && b.pts.empty()) {
            r.hasC = true;
            int64_t x = a.c, y = b.c;
            uint64_t ux = x, uy = y;
            unsigned bw = IC->getOperand(0)->getType()->isIntegerTy() ? IC->getOperand(0)->getType()->getIntegerBitWidth() : 64;
            if (bw < 64) {
              ux &= ((1ULL << bw) - 1);
              uy &= ((1ULL << bw) - 1);
            }
            switch (IC->getPredicate()) {
            case CmpInst::ICMP_EQ:
              r.c = x == y;
              break;
            case CmpInst::ICMP_NE:
              r.c = x != y;
              break;
            case CmpInst::ICMP_SLT:
              r.c = x < y;
              break;
            case CmpInst::ICMP_SLE:
              r.c = x <= y;
              break;
            case CmpInst::ICMP_SGT:
              r.c = x > y;
              break;
            case CmpInst::ICMP_SGE:
              r.c = x >= y;
              break;
            case CmpInst::ICMP_ULT:
              r.c = ux < uy;
              break;
            case CmpInst::ICMP_ULE:
              r.c = ux <= uy;
              break;
            case CmpInst::ICMP_UGT:
              r.c = ux > uy;
              break;
            case CmpInst::ICMP_UGE:
              r.c = ux >= uy;
              break;
            default:
              r.hasC = false;
            }
          } else if (IC->isEquality()) {
            bool an = a.isNull, bn = b.isNull;
            if ((an && isNonNullPtr(b)) || (bn && isNonNullPtr(a))) {
              r.hasC = true;
              r.c = IC->getPredicate() == CmpInst::ICMP_NE;
            } else if (an && bn) {
              r.hasC = true;
              r.c = IC->getPredicate() == CmpInst::ICMP_EQ;
            } else if (a.pts.empty() && b.pts.empty() && a.fns.size() == 1 && b.fns.size() == 1 && !a.unkPtr && !b.unkPtr && !a.isNull &&
                       !b.isNull) {
              r.hasC = true;
              bool eq = *a.fns.begin() == *b.fns.begin();
              r.c = (IC->getPredicate() == CmpInst::ICMP_EQ) ? eq : !eq;
            }
          }
        }
      } else if (auto *CI2 = dyn_cast<CastInst>(&I)) {
        Val a = getV(fr, CI2->getOperand(0));
        r = a;
        if (isa<TruncInst>(CI2) || isa<ZExtInst>(CI2) || isa<SExtInst>(CI2)) {
          if (a.hasC) {
            unsigned bw = CI2->getType()->getIntegerBitWidth();
            if (isa<TruncInst>(CI2) && bw < 64) {
              int64_t m = a.c & ((1LL << bw) - 1);
              if (bw > 1 && (m >> (bw - 1)) & 1) m |= ~((1LL << bw) - 1);
              r.c = m;
              if (bw == 1) r.c = a.c & 1;
            } else if (isa<ZExtInst>(CI2)) {
              unsigned sb = CI2->getOperand(0)->getType()->getIntegerBitWidth();
              if (sb < 64) r.c = a.c & ((1LL << sb) - 1);
            }
          }
        }
      } else if (auto *BO = dyn_cast<BinaryOperator>(&I)) {
        Val a = getV(fr, BO->getOperand(0)), b = getV(fr, BO->getOperand(1));
        r.t = tj(tj(a.t, b.t), tj(a.addrT, b.addrT));
        unsigned op = BO->getOpcode();
        if (op == Instruction::UDiv || op == Instruction::SDiv || op == Instruction::URem || op == Instruction::SRem) {
          if (r.t) report("tainted-division", I, r.t);
        }
        if (a.hasC && b.hasC && a.pts.empty() && b.pts.empty()) {
          r.hasC = true;
          int64_t x = a.c, y = b.c;
          switch (op) {
          case Instruction::Add:
            r.c = x + y;
            break;
          case Instruction::Sub:
            r.c = x - y;
            break;
          case Instruction::Mul:
            r.c = x * y;
            break;
          case Instruction::And:
            r.c = x & y;
            break;
          case Instruction::Or:
            r.c = x | y;
            break;
          case Instruction::Xor:
            r.c = x ^ y;
            break;
          case Instruction::Shl:
            r.c = (y >= 0 && y < 64) ? (int64_t)((uint64_t)x << y) : 0;
            break;
          case Instruction::LShr: {
            unsigned bw = BO->getType()->getIntegerBitWidth();
            uint64_t ux = x;
            if (bw < 64) ux &= ((1ULL << bw) - 1);
            r.c = (y >= 0 && y < 64) ? (int64_t)(ux >> y) : 0;
          } break;
          default:
            r.hasC = false;
          }
        }
        if (!a.pts.empty() || !b.pts.empty()) {
          for (auto t : a.pts) {
            t.stride = 1;
            r.pts.insert(t);
          }
          for (auto t : b.pts) {
            t.stride = 1;
            r.pts.insert(t);
          }
        }
      } else {
        for (auto &op : I.operands()) {
          Val a = getV(fr, op.get());
          r.t = tj(r.t, tj(a.t, a.addrT));
          for (auto &t : a.pts) r.pts.insert(t);
          for (auto f : a.fns) r.fns.insert(f);
        }
      }
      if (setR && !I.getType()->isVoidTy()) {
        auto it = fr.env.find(&I);
        if (it == fr.env.end()) {
          fr.env[&I] = r;
          envCh = true;
        } else {
          Val before = it->second;
          Val j = joinV(it->second, r); // keep constants only if stable
          if (!(it->second.hasC && r.hasC && it->second.c == r.c)) j.hasC = false;
          it->second = j;
          if (!(before == j)) envCh = true;
        }
      }
      if (stop) break;
    }
  }
  // drop callee-local objects
  for (auto &kv : fr.allocas) retS.m.erase(kv.second);
  callStack.pop_back();
  if (retS.bottom) { /* no return reached (abort) */
    S.bottom = false;
    return retV;
  }
  S = retS;
  return retV;
}

// ---- symbolic roots (client C20 and the per-API C06 roots): build abstract argument values from the parameter types
static int symCount = 0;
static std::set<int> ctxObjs; // objects standing for a secp256k1_context handed in by the caller
static Val makeSym(Type *T, const std::string &name, Module &M, int depth) {
  Val v;
  if (!T->isPointerTy()) return v; // unknown integer, untainted
  Type *P = T->getPointerElementType();
  if (P->isFunctionTy()) { // callbacks (noncefp, hash functions): the library default (NULL) is analysed
    v.isNull = true;
    v.hasC = true;
    v.c = 0;
    return v;
  }
  if (P->isIntegerTy(8) || !P->isSized()) { // byte buffer / void*: a summary object of unknown length
    int o = newObj("arg:" + name, 8192, true);
    v.pts.insert({o, 0, 0});
    return v;
  }
  if (P->isPointerTy()) { // array of pointers: one summary cell pointing to one summary pointee
    int o = newObj("arg:" + name + "[]", 8, true);
    Val inner = makeSym(P, name + "[*]", M, depth + 1);
    auto mem = std::make_shared<ObjMem>();
    mem->size = 8;
    mem->bytes.assign(8, 0);
    mem->slots[0] = inner;
    mem->slots[-1000000] = inner;
    baseMem[o] = mem;
    v.pts.insert({o, 0, 1});
    return v;
  }
  int64_t sz = DL->getTypeAllocSize(P);
  bool isCtx = false;
  if (auto *ST = dyn_cast<StructType>(P)) isCtx = ST->hasName() && ST->getName() == "struct.secp256k1_context_struct";
  int o = newObj("arg:" + name, sz, false);
  if (isCtx) {
    ctxObjs.insert(o);
    // callbacks and compression function as installed by context_create
    auto *ST = cast<StructType>(P);
    auto *SL = DL->getStructLayout(ST);
    auto mem = std::make_shared<ObjMem>();
    mem->size = sz;
    mem->bytes.assign(sz, 0);
    auto setFn = [&](int64_t off, const char *fname) {
      if (Function *F = M.getFunction(fname)) {
        Val fv;
        fv.fns.insert(F);
        mem->slots[off] = fv;
      }
    };
    if (ST->getNumElements() >= 4) {
      setFn(SL->getElementOffset(1), "secp256k1_sha256_transform");
      setFn(SL->getElementOffset(2), "secp256k1_default_illegal_callback_fn");
      setFn(SL->getElementOffset(3), "secp256k1_default_error_callback_fn");
    }
    baseMem[o] = mem;
  }
  v.pts.insert({o, 0, 0});
  return v;
}

static std::string jesc(const std::string &s) {
  std::string o;
  for (char c : s) {
    if (c == '"' || c == '\\') {
      o += '\\';
      o += c;
    } else if (c == '\n')
      o += "\\n";
    else
      o += c;
  }
  return o;
}

int main(int argc, char **argv) {
  if (argc < 2) {
    errs() << "usage: irx <module.ll> [--root fn | --sym fn] [--taint-blinding] [--json out.json]\n";
    return 2;
  }
  std::string rootName = "main", jsonPath;
  bool sym = false;
  for (int i = 2; i < argc; i++) {
    std::string a = argv[i];
    if (a == "--root" && i + 1 < argc) rootName = argv[++i];
    else if (a == "--sym" && i + 1 < argc) { rootName = argv[++i]; sym = true; }
    else if (a == "--taint-blinding") optTaintBlinding = true;
    else if (a == "--json" && i + 1 < argc) jsonPath = argv[++i];
    else if (a[0] != '-') rootName = a;
  }
  LLVMContext C;
  SMDiagnostic E;
  auto M = parseIRFile(argv[1], E, C);
  if (!M) {
    E.print("irx", errs());
    return 2;
  }
  DL = &M->getDataLayout();
  const Function *root = M->getFunction(rootName);
  if (!root || root->isDeclaration()) {
    errs() << "irx: root function " << rootName << " not found\n";
    return 2;
  }
  State S;
  S.bottom = false;
  GS = &S;
  for (auto &G : M->globals()) objOfGlobal(&G);
  std::vector<Val> args;
  if (sym) {
    for (auto &A : root->args()) {
      std::string nm = rootName + ":" + std::to_string(A.getArgNo());
      args.push_back(makeSym(A.getType(), nm, *M, 0));
    }
  }
  analyze(root, args, S, 0);
  std::vector<Report> rs;
  for (auto &kv : reports) rs.push_back(kv.second);
  std::sort(rs.begin(), rs.end(), [](const Report &a, const Report &b) { return a.seq < b.seq; });
  // write effects on caller-visible state: globals and the context object
  struct Eff { std::string obj, where, func, chain, cls; };
  std::vector<Eff> effs;
  for (auto &kv : writtenAt) {
    const std::string &nm = objs[kv.first].name;
    std::string cls;
    if (!nm.empty() && nm[0] == '@') cls = "global";
    else if (ctxObjs.count(kv.first)) cls = "context";
    else continue;
    effs.push_back({nm, kv.second.where, kv.second.func, kv.second.chain, cls});
  }
  if (!jsonPath.empty()) {
    std::error_code EC;
    raw_fd_ostream O(jsonPath, EC);
    O << "{\"root\":\"" << jesc(rootName) << "\",\"symbolic\":" << (sym ? "true" : "false") << ",\"taint_blinding\":" << (optTaintBlinding ? "true" : "false")
      << ",\"executions\":" << nExec << ",\"instructions\":" << nInstr << ",\"objects\":" << objs.size() << ",\"select_on_secret\":" << nSelectSecret
      << ",\"declassify_calls\":" << nDeclassify << ",\"source_markers\":" << nSources << ",\"functions_in_module\":" << M->size() << ",\"unknown_externals\":[";
    bool f = true;
    for (auto &s : unknownExt) {
      if (!f) O << ",";
      f = false;
      O << "\"" << jesc(s) << "\"";
    }
    O << "],\"sinks\":[";
    f = true;
    for (auto &r : rs) {
      if (!f) O << ",";
      f = false;
      O << "{\"kind\":\"" << jesc(r.kind) << "\",\"where\":\"" << jesc(r.where) << "\",\"function\":\"" << jesc(r.func) << "\",\"chain\":\"" << jesc(r.chain)
        << "\",\"origin\":\"" << jesc(originText(r.origin)) << "\"}";
    }
    O << "],\"effects\":[";
    f = true;
    for (auto &e : effs) {
      if (!f) O << ",";
      f = false;
      O << "{\"class\":\"" << e.cls << "\",\"object\":\"" << jesc(e.obj) << "\",\"where\":\"" << jesc(e.where) << "\",\"function\":\"" << jesc(e.func)
        << "\",\"chain\":\"" << jesc(e.chain) << "\"}";
    }
    O << "]}\n";
  }
  outs() << "executions " << nExec << " instrs " << nInstr << " objects " << objs.size() << " select-on-secret " << nSelectSecret << " sinks " << rs.size()
         << " effects " << effs.size() << "\n";
  for (auto &r : rs)
    outs() << r.kind << " " << r.where << " in " << r.func << " origin=" << originText(r.origin) << "\n   via " << r.chain << "\n";
  for (auto &e : effs) outs() << "write to " << e.cls << " " << e.obj << " at " << e.where << " in " << e.func << "\n   via " << e.chain << "\n";
  return 0;
}
