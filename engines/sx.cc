// sx — source-fact extractor for the secp256k1-zkp static checks (DESIGN §3.1).
//
// A clang libTooling action that walks every function definition of the
// translation unit, builds its clang::CFG and writes one JSON "mini-IR":
// functions (params, locals, CFG blocks of statement trees, terminators),
// static-storage variables, struct layouts, and declared-but-exported API.
//
// Usage: sx <out.json> <file.c> -- <compile flags>
#include "clang/AST/ASTConsumer.h"
#include "clang/AST/ASTContext.h"
#include "clang/AST/Decl.h"
#include "clang/AST/Expr.h"
#include "clang/AST/RecursiveASTVisitor.h"
#include "clang/AST/RecordLayout.h"
#include "clang/AST/Stmt.h"
#include "clang/Basic/Builtins.h"
#include "clang/Analysis/CFG.h"
#include "clang/Frontend/CompilerInstance.h"
#include "clang/Frontend/FrontendAction.h"
#include "clang/Lex/Lexer.h"
#include "clang/Tooling/CommonOptionsParser.h"
#include "clang/Tooling/Tooling.h"
#include "llvm/Support/CommandLine.h"
#include "llvm/Support/raw_ostream.h"
#include <map>
#include <set>
#include <string>
#include <vector>

using namespace clang;

static std::string OutPath;

namespace {

static std::string jstr(llvm::StringRef s) {
  std::string o = "\"";
  for (unsigned char c : s) {
    switch (c) {
    case '"': o += "\\\""; break;
    case '\\': o += "\\\\"; break;
    case '\n': o += "\\n"; break;
    case '\t': o += "\\t"; break;
    case '\r': o += "\\r"; break;
    default:
      if (c < 0x20) { char b[8]; snprintf(b, sizeof b, "\\u%04x", c); o += b; }
      else o += (char)c;
    }
  }
  o += "\"";
  return o;
}

struct Emitter {
  ASTContext &Ctx;
  SourceManager &SM;
  const LangOptions &LO;
  // per function: names declared more than once get a @line suffix
  std::map<const VarDecl *, std::string> varName;

  Emitter(ASTContext &C) : Ctx(C), SM(C.getSourceManager()), LO(C.getLangOpts()) {}

  std::string fileOf(SourceLocation L) {
    L = SM.getExpansionLoc(L);
    llvm::StringRef f = SM.getFilename(L);
    return f.str();
  }
  unsigned lineOf(SourceLocation L) { return SM.getExpansionLineNumber(L); }
  std::string locStr(SourceLocation L) {
    if (L.isInvalid()) return "?";
    std::string f = fileOf(L);
    { // normalise a/b/../c -> a/c
      std::vector<std::string> parts; std::string cur;
      for (size_t i = 0; i <= f.size(); i++) {
        if (i == f.size() || f[i] == '/') {
          if (cur == "..") { if (!parts.empty()) parts.pop_back(); }
          else if (cur != "." ) parts.push_back(cur);
          cur.clear();
        } else cur += f[i];
      }
      std::string n;
      for (size_t i = 0; i < parts.size(); i++) { if (i) n += "/"; n += parts[i]; }
      f = n;
    }
    size_t p = f.find("/src/");
    if (p != std::string::npos) f = f.substr(p + 1);
    else { p = f.find("/include/"); if (p != std::string::npos) f = f.substr(p + 1); }
    return f + ":" + std::to_string(lineOf(L));
  }
  std::string macrosOf(SourceLocation L) {
    std::vector<std::string> names;
    int guard = 0;
    while (L.isMacroID() && guard++ < 32) {
      llvm::StringRef n = Lexer::getImmediateMacroName(L, SM, LO);
      if (!n.empty() && (names.empty() || names.back() != n.str())) names.push_back(n.str());
      L = SM.getImmediateMacroCallerLoc(L);
    }
    std::string o = "[";
    for (size_t i = 0; i < names.size(); i++) { if (i) o += ","; o += jstr(names[i]); }
    return o + "]";
  }

  std::string typeStr(QualType T) { return T.getAsString(); }

  std::string nameOf(const VarDecl *V) {
    auto it = varName.find(V);
    if (it != varName.end()) return it->second;
    return V->getNameAsString();
  }

  // --- expressions
  std::string E(const Expr *e) {
    if (!e) return "null";
    // constant folding first (but keep address-of / string etc. out)
    if (!e->isValueDependent() && e->isPRValue() && e->getType()->isIntegralOrEnumerationType() && !isa<InitListExpr>(e)) {
      Expr::EvalResult R;
      if (e->EvaluateAsInt(R, Ctx, Expr::SE_NoSideEffects)) {
        llvm::APSInt v = R.Val.getInt();
        llvm::SmallString<40> s; v.toString(s, 10);
        return std::string("[\"int\",") + jstr(s) + "," + std::to_string(Ctx.getTypeSize(e->getType())) + "]";
      }
    }
    if (auto *p = dyn_cast<ParenExpr>(e)) return E(p->getSubExpr());
    if (auto *c = dyn_cast<CastExpr>(e)) {
      const Expr *s = c->getSubExpr();
      if (c->getCastKind() == CK_ArrayToPointerDecay) {
        QualType AT = s->getType();
        uint64_t tot = 0, el = 0, n = 0;
        if (auto *CAT = Ctx.getAsConstantArrayType(AT)) {
          tot = Ctx.getTypeSizeInChars(AT).getQuantity();
          el = Ctx.getTypeSizeInChars(CAT->getElementType()).getQuantity();
          n = CAT->getSize().getZExtValue();
        }
        return "[\"decay\"," + E(s) + "," + std::to_string(tot) + "," + std::to_string(el) + "," + std::to_string(n) + "]";
      }
      if (c->getCastKind() == CK_IntegralCast) {
        uint64_t fb = Ctx.getTypeSize(s->getType()), tb = Ctx.getTypeSize(c->getType());
        if (tb < fb)
          return "[\"narrow\"," + std::to_string(fb) + "," + std::to_string(tb) + "," + E(s) + "]";
      }
      if (c->getCastKind() == CK_IntegralToBoolean) return "[\"bool\"," + E(s) + "]";
      return E(s);
    }
    if (auto *d = dyn_cast<DeclRefExpr>(e)) {
      const ValueDecl *D = d->getDecl();
      if (auto *V = dyn_cast<VarDecl>(D)) {
        if (V->hasGlobalStorage() && !V->isStaticLocal()) return "[\"gvar\"," + jstr(V->getNameAsString()) + "]";
        if (V->isStaticLocal()) return "[\"gvar\"," + jstr(nameOf(V)) + "]";
        return "[\"var\"," + jstr(nameOf(V)) + "]";
      }
      if (auto *F = dyn_cast<FunctionDecl>(D)) return "[\"fn\"," + jstr(F->getNameAsString()) + "]";
      return "[\"ref\"," + jstr(D->getNameAsString()) + "]";
    }
    if (auto *m = dyn_cast<MemberExpr>(e)) {
      std::string b = E(m->getBase());
      if (m->isArrow()) b = "[\"deref\"," + b + "]";
      return "[\"member\"," + b + "," + jstr(m->getMemberDecl()->getNameAsString()) + "]";
    }
    if (auto *a = dyn_cast<ArraySubscriptExpr>(e))
      return "[\"index\"," + E(a->getBase()) + "," + E(a->getIdx()) + "]";
    if (auto *u = dyn_cast<UnaryOperator>(e)) {
      std::string op = UnaryOperator::getOpcodeStr(u->getOpcode()).str();
      if (u->getOpcode() == UO_Deref) return "[\"deref\"," + E(u->getSubExpr()) + "]";
      if (u->getOpcode() == UO_AddrOf) return "[\"addr\"," + E(u->getSubExpr()) + "]";
      if (u->isIncrementDecrementOp())
        return "[\"incdec\"," + jstr(op) + "," + (u->isPrefix() ? "1" : "0") + "," + E(u->getSubExpr()) + "]";
      {
        QualType T = u->getType();
        std::string t = (T.isNull() || !T->isIntegralOrEnumerationType()) ? std::string(",0,0")
          : "," + std::to_string(Ctx.getTypeSize(T)) + "," + (T->isSignedIntegerOrEnumerationType() ? "1" : "0");
        return "[\"un\"," + jstr(op) + "," + E(u->getSubExpr()) + t + "]";
      }
    }
    if (auto *b = dyn_cast<BinaryOperator>(e)) {
      std::string op = b->getOpcodeStr().str();
      // trailing type facts (additive): width and signedness of the type the operation is carried out in
      // (comparisons: the converted operand type; compound assignments: the computation type)
      auto ty = [&](QualType T) -> std::string {
        if (T.isNull() || !T->isIntegralOrEnumerationType()) return ",0,0";
        return "," + std::to_string(Ctx.getTypeSize(T)) + "," + (T->isSignedIntegerOrEnumerationType() ? "1" : "0");
      };
      if (b->isAssignmentOp()) {
        std::string t = ",0,0";
        if (auto *ca = dyn_cast<CompoundAssignOperator>(b)) t = ty(ca->getComputationResultType());
        return "[\"assign\"," + jstr(op) + "," + E(b->getLHS()) + "," + E(b->getRHS()) + t + "]";
      }
      QualType T = (b->isComparisonOp() || b->isLogicalOp()) ? b->getLHS()->getType() : b->getType();
      return "[\"bin\"," + jstr(op) + "," + E(b->getLHS()) + "," + E(b->getRHS()) + ty(T) + "]";
    }
    if (auto *c = dyn_cast<ConditionalOperator>(e))
      return "[\"cond\"," + E(c->getCond()) + "," + E(c->getTrueExpr()) + "," + E(c->getFalseExpr()) + "]";
    if (auto *c = dyn_cast<CallExpr>(e)) {
      std::string callee;
      if (const FunctionDecl *F = c->getDirectCallee())
        if (F->getBuiltinID() == Builtin::BI__builtin_expect && c->getNumArgs() == 2)
          return E(c->getArg(0));
      if (const FunctionDecl *F = c->getDirectCallee()) callee = jstr(F->getNameAsString());
      else callee = E(c->getCallee());
      std::string o = "[\"call\"," + callee + "," + jstr(locStr(c->getBeginLoc())) + ",[";
      for (unsigned i = 0; i < c->getNumArgs(); i++) { if (i) o += ","; o += E(c->getArg(i)); }
      return o + "]]";
    }
    if (auto *s = dyn_cast<StringLiteral>(e)) return "[\"str\"," + std::to_string(s->getByteLength()) + "," + jstr(s->getBytes().substr(0, 80)) + "]";
    if (auto *u = dyn_cast<UnaryExprOrTypeTraitExpr>(e)) { (void)u; return "[\"sizeof\"]"; }
    if (auto *il = dyn_cast<InitListExpr>(e)) {
      std::string o = "[\"init\"";
      unsigned n = il->getNumInits();
      bool big = n > 64;
      for (unsigned i = 0; i < n && !big; i++) o += "," + E(il->getInit(i));
      if (big) o += ",[\"elided\"," + std::to_string(n) + "]";
      return o + "]";
    }
    if (auto *cl = dyn_cast<CompoundLiteralExpr>(e)) return E(cl->getInitializer());
    if (isa<ImplicitValueInitExpr>(e)) return "[\"int\",\"0\",0]";
    if (auto *se = dyn_cast<StmtExpr>(e)) { (void)se; return "[\"stmtexpr\"]"; }
    if (auto *oe = dyn_cast<OffsetOfExpr>(e)) { (void)oe; return "[\"offsetof\"]"; }
    if (auto *fl = dyn_cast<FloatingLiteral>(e)) { (void)fl; return "[\"float\"]"; }
    if (auto *ce = dyn_cast<ConstantExpr>(e)) return E(ce->getSubExpr());
    if (auto *ov = dyn_cast<OpaqueValueExpr>(e)) return E(ov->getSourceExpr());
    if (auto *bc = dyn_cast<BinaryConditionalOperator>(e))
      return "[\"cond\"," + E(bc->getCommon()) + "," + E(bc->getCommon()) + "," + E(bc->getFalseExpr()) + "]";
    return std::string("[\"other\",") + jstr(e->getStmtClassName()) + "]";
  }

  std::string S(const Stmt *s) {
    if (auto *e = dyn_cast<Expr>(s)) return E(e);
    if (auto *r = dyn_cast<ReturnStmt>(s))
      return "[\"return\"," + (r->getRetValue() ? E(r->getRetValue()) : std::string("null")) + "]";
    if (auto *d = dyn_cast<DeclStmt>(s)) {
      std::string o = "[\"decls\"";
      for (auto *D : d->decls())
        if (auto *V = dyn_cast<VarDecl>(D)) {
          o += ",[\"decl\"," + jstr(nameOf(V)) + "," + (V->hasInit() ? E(V->getInit()) : std::string("null")) + "]";
        }
      return o + "]";
    }
    if (auto *a = dyn_cast<GCCAsmStmt>(s)) {
      std::string o = "[\"asm\",[";
      for (unsigned i = 0; i < a->getNumOutputs(); i++) { if (i) o += ","; o += E(a->getOutputExpr(i)); }
      o += "],[";
      for (unsigned i = 0; i < a->getNumInputs(); i++) { if (i) o += ","; o += E(a->getInputExpr(i)); }
      return o + "]]";
    }
    return std::string("[\"stmt\",") + jstr(s->getStmtClassName()) + "]";
  }

  static void collectSub(const Stmt *s, std::set<const Stmt *> &out) {
    for (const Stmt *c : s->children())
      if (c) { out.insert(c); collectSub(c, out); }
  }

  struct LocalCollector : RecursiveASTVisitor<LocalCollector> {
    std::vector<const VarDecl *> vars;
    bool VisitVarDecl(VarDecl *V) { if (!isa<ParmVarDecl>(V)) vars.push_back(V); return true; }
  };

  std::string varInfo(const VarDecl *V) {
    QualType T = V->getType();
    std::string o = "{\"name\":" + jstr(nameOf(V)) + ",\"type\":" + jstr(typeStr(T));
    o += ",\"canon\":" + jstr(T.getCanonicalType().getUnqualifiedType().getAsString());
    o += ",\"line\":" + std::to_string(lineOf(V->getLocation()));
    if (auto *CAT = Ctx.getAsConstantArrayType(T)) {
      o += ",\"array_n\":" + std::to_string(CAT->getSize().getZExtValue());
      o += ",\"elem_bytes\":" + std::to_string(Ctx.getTypeSizeInChars(CAT->getElementType()).getQuantity());
    }
    if (!T->isIncompleteType() && !T->isFunctionType())
      o += ",\"bytes\":" + std::to_string(Ctx.getTypeSizeInChars(T).getQuantity());
    if (T->isIntegralOrEnumerationType()) {
      o += ",\"int_bits\":" + std::to_string(Ctx.getTypeSize(T));
      o += std::string(",\"signed\":") + (T->isSignedIntegerOrEnumerationType() ? "true" : "false");
    }
    if (T->isPointerType()) {
      QualType P = T->getPointeeType();
      o += std::string(",\"ptr\":true,\"pointee_const\":") + (P.isConstQualified() ? "true" : "false");
      o += ",\"pointee\":" + jstr(typeStr(P.getUnqualifiedType()));
      o += ",\"pointee_canon\":" + jstr(P.getCanonicalType().getUnqualifiedType().getAsString());
      if (!P->isIncompleteType() && !P->isFunctionType() && !P->isVoidType())
        o += ",\"pointee_bytes\":" + std::to_string(Ctx.getTypeSizeInChars(P).getQuantity());
    }
    o += std::string(",\"static\":") + (V->isStaticLocal() ? "true" : "false");
    o += std::string(",\"const\":") + (T.isConstQualified() ? "true" : "false");
    return o + "}";
  }

  std::string function(const FunctionDecl *FD) {
    varName.clear();
    LocalCollector LC;
    LC.TraverseStmt(FD->getBody());
    std::map<std::string, int> cnt;
    for (auto *P : FD->parameters()) cnt[P->getNameAsString()]++;
    for (auto *V : LC.vars) cnt[V->getNameAsString()]++;
    for (auto *V : LC.vars)
      if (cnt[V->getNameAsString()] > 1)
        varName[V] = V->getNameAsString() + "@" + std::to_string(lineOf(V->getLocation()));

    std::string o = "{";
    o += "\"loc\":" + jstr(locStr(FD->getLocation()));
    o += ",\"endline\":" + std::to_string(lineOf(FD->getEndLoc()));
    o += std::string(",\"external\":") + (FD->isExternallyVisible() ? "true" : "false");
    o += ",\"ret\":" + jstr(typeStr(FD->getReturnType()));
    o += ",\"params\":[";
    bool first = true;
    for (auto *P : FD->parameters()) { if (!first) o += ","; first = false; o += varInfo(P); }
    o += "],\"locals\":[";
    first = true;
    for (auto *V : LC.vars) { if (!first) o += ","; first = false; o += varInfo(V); }
    o += "]";

    CFG::BuildOptions BO;
    std::unique_ptr<CFG> cfg = CFG::buildCFG(FD, FD->getBody(), &Ctx, BO);
    if (!cfg) { o += ",\"blocks\":null}"; return o; }
    // elements that are sub-expressions of another element
    std::set<const Stmt *> elems, nested;
    for (const CFGBlock *B : *cfg)
      for (const CFGElement &el : *B)
        if (auto cs = el.getAs<CFGStmt>()) elems.insert(cs->getStmt());
    for (const Stmt *s : elems) {
      std::set<const Stmt *> sub; collectSub(s, sub);
      for (const Stmt *c : sub) if (elems.count(c)) nested.insert(c);
    }
    // terminator statements themselves (IfStmt etc.) are not elements; their condition
    // expressions are. Mark which element is the branch condition of its block.
    o += ",\"entry\":" + std::to_string(cfg->getEntry().getBlockID());
    o += ",\"exit\":" + std::to_string(cfg->getExit().getBlockID());
    o += ",\"blocks\":[";
    bool fb = true;
    for (const CFGBlock *B : *cfg) {
      if (!fb) o += ","; fb = false;
      o += "{\"id\":" + std::to_string(B->getBlockID()) + ",\"elems\":[";
      bool fe = true;
      for (const CFGElement &el : *B) {
        auto cs = el.getAs<CFGStmt>();
        if (!cs) continue;
        const Stmt *s = cs->getStmt();
        if (!fe) o += ","; fe = false;
        o += "{\"loc\":" + jstr(locStr(s->getBeginLoc()));
        o += ",\"macros\":" + macrosOf(s->getBeginLoc());
        o += std::string(",\"top\":") + (nested.count(s) ? "false" : "true");
        o += ",\"e\":" + S(s) + "}";
      }
      o += "]";
      // terminator
      const Stmt *T = B->getTerminatorStmt();
      o += ",\"term\":";
      if (T) {
        std::string kind = T->getStmtClassName();
        const Expr *cond = nullptr;
        if (const Expr *lc = B->getLastCondition()) cond = lc;
        else if (const Stmt *tc = B->getTerminatorCondition()) cond = dyn_cast<Expr>(tc);
        if (auto *bo = dyn_cast<BinaryOperator>(T)) kind = std::string("Logical") + bo->getOpcodeStr().str();
        o += "{\"kind\":" + jstr(kind) + ",\"loc\":" + jstr(locStr(T->getBeginLoc())) +
             ",\"macros\":" + macrosOf(T->getBeginLoc()) + ",\"cond\":" + (cond ? E(cond) : std::string("null"));
        if (auto *sw = dyn_cast<SwitchStmt>(T)) {
          // case labels of successors, in successor order
          o += ",\"cases\":[";
          bool fc = true;
          for (auto I = B->succ_begin(); I != B->succ_end(); ++I) {
            const CFGBlock *SB = I->getReachableBlock();
            if (!fc) o += ","; fc = false;
            std::string lab = "null";
            if (SB && SB->getLabel()) {
              if (auto *cs = dyn_cast<CaseStmt>(SB->getLabel())) lab = E(cs->getLHS());
              else if (isa<DefaultStmt>(SB->getLabel())) lab = "\"default\"";
            }
            o += lab;
          }
          o += "]";
          (void)sw;
        }
        o += "}";
      } else o += "null";
      o += ",\"succs\":[";
      bool fs = true;
      for (auto I = B->succ_begin(); I != B->succ_end(); ++I) {
        if (!fs) o += ","; fs = false;
        const CFGBlock *SB = I->getReachableBlock();
        o += SB ? std::to_string(SB->getBlockID()) : std::string("null");
      }
      o += "]}";
    }
    o += "]}";
    return o;
  }
};

class Consumer : public ASTConsumer {
public:
  void HandleTranslationUnit(ASTContext &Ctx) override {
    Emitter Em(Ctx);
    std::error_code EC;
    llvm::raw_fd_ostream OS(OutPath, EC);
    if (EC) { llvm::errs() << "sx: cannot open " << OutPath << "\n"; exit(2); }
    std::map<std::string, std::string> funcs;
    std::vector<std::string> globals, decls;
    std::map<std::string, std::string> structs;
    struct V : RecursiveASTVisitor<V> {
      std::vector<const FunctionDecl *> defs, protos;
      std::vector<const VarDecl *> statics;
      std::vector<const RecordDecl *> recs;
      bool VisitFunctionDecl(FunctionDecl *F) {
        if (F->doesThisDeclarationHaveABody()) defs.push_back(F);
        else protos.push_back(F);
        return true;
      }
      bool VisitVarDecl(VarDecl *D) {
        if (D->hasGlobalStorage() && !isa<ParmVarDecl>(D)) statics.push_back(D);
        return true;
      }
      bool VisitRecordDecl(RecordDecl *R) { if (R->isCompleteDefinition()) recs.push_back(R); return true; }
    } v;
    v.TraverseDecl(Ctx.getTranslationUnitDecl());
    SourceManager &SM = Ctx.getSourceManager();
    auto inRepo = [&](SourceLocation L) {
      std::string f = SM.getFilename(SM.getExpansionLoc(L)).str();
      return f.find("/usr/") != 0;
    };
    OS << "{\"functions\":{";
    bool first = true;
    for (auto *F : v.defs) {
      if (!inRepo(F->getLocation())) continue;
      if (!first) OS << ","; first = false;
      OS << jstr(F->getNameAsString()) << ":" << Em.function(F) << "\n";
    }
    OS << "},\"protos\":[";
    first = true;
    std::set<std::string> seen;
    for (auto *F : v.protos) {
      if (!inRepo(F->getLocation())) continue;
      std::string loc = Em.locStr(F->getLocation());
      if (loc.find("include/") != 0) continue;
      if (!seen.insert(F->getNameAsString()).second) continue;
      if (!first) OS << ","; first = false;
      OS << "{\"name\":" << jstr(F->getNameAsString()) << ",\"loc\":" << jstr(loc) << ",\"ret\":" << jstr(F->getReturnType().getAsString());
      OS << ",\"warn_unused\":" << (F->hasAttr<WarnUnusedResultAttr>() ? "true" : "false");
      OS << ",\"params\":[";
      bool fp = true;
      for (auto *P : F->parameters()) { if (!fp) OS << ","; fp = false; Em.varName.clear(); OS << Em.varInfo(P); }
      OS << "]}\n";
    }
    OS << "],\"globals\":[";
    first = true;
    std::set<const VarDecl *> seenV;
    for (auto *D : v.statics) {
      if (!inRepo(D->getLocation())) continue;
      const VarDecl *Def = D->getDefinition();
      const VarDecl *C = Def ? Def : D->getCanonicalDecl();
      if (!seenV.insert(C).second) continue;
      if (!first) OS << ","; first = false;
      QualType T = C->getType();
      bool deepConst = T.isConstQualified();
      QualType ET = T;
      while (auto *AT = Ctx.getAsArrayType(ET)) ET = AT->getElementType();
      bool elemConst = ET.isConstQualified() || T.isConstQualified();
      std::string fn;
      if (C->isStaticLocal())
        if (auto *FD = dyn_cast<FunctionDecl>(C->getDeclContext())) fn = FD->getNameAsString();
      OS << "{\"name\":" << jstr(C->getNameAsString()) << ",\"loc\":" << jstr(Em.locStr(C->getLocation()))
         << ",\"type\":" << jstr(T.getAsString())
         << ",\"const\":" << (elemConst ? "true" : "false")
         << ",\"defined\":" << (Def ? "true" : "false")
         << ",\"extern_decl\":" << (C->hasExternalStorage() ? "true" : "false")
         << ",\"static_local_of\":" << (fn.empty() ? std::string("null") : jstr(fn))
         << ",\"external\":" << (C->isExternallyVisible() ? "true" : "false")
         << ",\"is_ptr\":" << (ET->isPointerType() ? "true" : "false");
      if (!T->isIncompleteType()) OS << ",\"bytes\":" << Ctx.getTypeSizeInChars(T).getQuantity();
      (void)deepConst;
      OS << "}\n";
    }
    OS << "],\"structs\":{";
    first = true;
    std::set<std::string> seenS;
    for (auto *R : v.recs) {
      if (!inRepo(R->getLocation())) continue;
      if (R->isInvalidDecl()) continue;
      std::string name = Ctx.getTypeDeclType(R).getCanonicalType().getAsString();
      if (name.empty() || !seenS.insert(name).second) continue;
      const ASTRecordLayout &L = Ctx.getASTRecordLayout(R);
      if (!first) OS << ","; first = false;
      OS << jstr(name) << ":{\"bytes\":" << L.getSize().getQuantity() << ",\"fields\":[";
      bool ff = true; unsigned idx = 0;
      for (auto *F : R->fields()) {
        if (!ff) OS << ","; ff = false;
        QualType FT = F->getType();
        OS << "{\"name\":" << jstr(F->getNameAsString()) << ",\"type\":" << jstr(FT.getAsString())
           << ",\"canon\":" << jstr(FT.getCanonicalType().getUnqualifiedType().getAsString())
           << ",\"offset\":" << (L.getFieldOffset(idx) / 8);
        if (!FT->isIncompleteType()) OS << ",\"bytes\":" << Ctx.getTypeSizeInChars(FT).getQuantity();
        if (auto *CAT = Ctx.getAsConstantArrayType(FT)) OS << ",\"array_n\":" << CAT->getSize().getZExtValue();
        if (FT->isIntegralOrEnumerationType()) OS << ",\"int_bits\":" << Ctx.getTypeSize(FT) << ",\"signed\":" << (FT->isSignedIntegerOrEnumerationType() ? "true" : "false");
        OS << "}";
        idx++;
      }
      OS << "]}\n";
    }
    OS << "}}\n";
  }
};

class Action : public ASTFrontendAction {
public:
  std::unique_ptr<ASTConsumer> CreateASTConsumer(CompilerInstance &, llvm::StringRef) override {
    return std::make_unique<Consumer>();
  }
};

} // namespace

int main(int argc, const char **argv) {
  if (argc < 3) { llvm::errs() << "usage: sx out.json file.c -- flags\n"; return 2; }
  OutPath = argv[1];
  std::vector<const char *> args;
  args.push_back(argv[0]);
  for (int i = 2; i < argc; i++) args.push_back(argv[i]);
  int ac = (int)args.size();
  static llvm::cl::OptionCategory Cat("sx");
  auto EP = tooling::CommonOptionsParser::create(ac, args.data(), Cat);
  if (!EP) { llvm::errs() << llvm::toString(EP.takeError()); return 2; }
  tooling::ClangTool Tool(EP->getCompilations(), EP->getSourcePathList());
  int rc = Tool.run(tooling::newFrontendActionFactory<Action>().get());
  return rc ? 2 : 0;
}
