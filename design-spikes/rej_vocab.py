#!/usr/bin/env python3
"""Spike (NOT armed, not registered): vocabulary of the rejecting conditions of the exact verifiers.

For each listed verifier: the callees that occur in the condition of a branch one of whose successors returns literal 0,
looked through static callees.  Idea for a rule (DESIGN §10, round 10, C14-h): the vocabulary stays within the set frozen
per function on the reviewed tree.  Needs the full benign scan before arming (helper extraction, redundant checks).

  cd /verif/rules && python3 ../design-spikes/rej_vocab.py
"""
import sys, os
sys.path.insert(0, os.path.join(os.path.dirname(os.path.abspath(__file__)), "..", "rules"))
from sxlib import *

VERIFIERS = ["secp256k1_ecdsa_adaptor_verify", "secp256k1_schnorrsig_verify", "secp256k1_ecdsa_sig_verify", "secp256k1_whitelist_verify",
             "secp256k1_musig_partial_sig_verify", "secp256k1_rangeproof_verify_impl", "secp256k1_borromean_verify"]


def vocab(prog, fname):
    f = prog.fn(fname)
    out = set()
    for bid, b in f.blocks.items():
        if b.cond is None:
            continue
        rej = False
        for s in b.succs:
            if s is None:
                continue
            for e2 in f.blocks[s].elems:
                if e2.top and kind(e2.e) == "return" and is_int(e2.e[1], 0):
                    rej = True
        if rej:
            for x in walk(b.cond):
                if kind(x) == "call" and callee_name(x):
                    out.add(callee_name(x))
    return out


if __name__ == "__main__":
    prog = program("K0")
    for v in VERIFIERS:
        try:
            print(v, sorted(vocab(prog, v)))
        except Exception as ex:
            print(v, "ERR", ex)
