#ifndef VERIF_STUB_MEMCHECK_H
#define VERIF_STUB_MEMCHECK_H
#include <stddef.h>
extern int __verif_mem_undefine(const void *p, size_t len);
extern int __verif_mem_define(const void *p, size_t len);
extern int __verif_mem_check(const void *p, size_t len);
#define VALGRIND_MAKE_MEM_UNDEFINED(p,len) __verif_mem_undefine((p),(len))
#define VALGRIND_MAKE_MEM_DEFINED(p,len) __verif_mem_define((p),(len))
#define VALGRIND_CHECK_MEM_IS_DEFINED(p,len) __verif_mem_check((p),(len))
#endif
