/* Positive control for the C20 effect analysis: a function with a const context parameter that
 * (a) writes the context through a cast and (b) updates a file-scope cache must be reported twice;
 * the clean sibling must not be reported. */
struct secp256k1_context_struct { int built; int counter; };
typedef struct secp256k1_context_struct secp256k1_context;
static int cache;
int fixture_dirty(const secp256k1_context *ctx, int x) {
    ((secp256k1_context *)ctx)->counter += 1;
    cache = x;
    return cache + ctx->built;
}
int fixture_clean(const secp256k1_context *ctx, int *out) {
    int local = ctx->built + 1;
    *out = local;
    return local;
}
