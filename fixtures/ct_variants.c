/* ct_variants.c — public-parameter variations of the maintainers' constant-time harness (src/ctime_tests.c).
 *
 * Same convention as ctime_tests.c: SECP256K1_CHECKMEM_UNDEFINE marks secret bytes, SECP256K1_CHECKMEM_DEFINE /
 * secp256k1_declassify release them.  The secrets are the ones ctime_tests.c marks (keys, session randomness, secret
 * adaptors, s2c data, randomization seeds); what varies here is public: optional arguments present / absent, explicit
 * nonce functions with caller data, variable-length Schnorr messages, 2 and 3 MuSig signers with plain and x-only tweaks
 * and without adaptor, a custom ECDH hash function, a context randomized through the real API before signing.
 *
 * This file is linked with the library's IR and analysed by irx from main() exactly like ctime_tests.c (C06 thorough
 * tier and, for K0, the quick tier).  It is never executed.
 */
#include <stdio.h>
#include <stdlib.h>
#include <string.h>

#include "../include/secp256k1.h"
#include "assumptions.h"
#include "checkmem.h"
#include "../include/secp256k1_ecdh.h"
#include "../include/secp256k1_recovery.h"
#include "../include/secp256k1_extrakeys.h"
#include "../include/secp256k1_schnorrsig.h"
#include "../include/secp256k1_musig.h"
#include "../include/secp256k1_ellswift.h"
#include "../include/secp256k1_ecdsa_s2c.h"
#include "../include/secp256k1_ecdsa_adaptor.h"

#define RELEASE_RET() SECP256K1_CHECKMEM_DEFINE(&ret, sizeof(ret))

static int my_ecdh_hash(unsigned char *output, const unsigned char *x32, const unsigned char *y32, void *data) {
    /* a caller-supplied hash function that only copies (it sees the secret point, as the default one does) */
    (void)data;
    memcpy(output, x32, 32);
    (void)y32;
    return 1;
}

static void variants(secp256k1_context *ctx, unsigned char *key) {
    secp256k1_ecdsa_signature signature;
    secp256k1_ecdsa_recoverable_signature rsig;
    secp256k1_pubkey pubkey;
    secp256k1_keypair keypair;
    unsigned char msg[32];
    unsigned char longmsg[100];
    unsigned char sig[74];
    unsigned char ndata[32];
    unsigned char out[32];
    unsigned char ellswift[64];
    unsigned char auxrnd[32];
    int ret, i;

    for (i = 0; i < 32; i++) {
        msg[i] = i + 1;
        ndata[i] = 3 * i + 7;
        auxrnd[i] = 5 * i + 11;
    }
    for (i = 0; i < 100; i++) {
        longmsg[i] = (unsigned char)(i * 7);
    }

    /* ECDSA with the nonce function and caller data given explicitly */
    SECP256K1_CHECKMEM_UNDEFINE(key, 32);
    ret = secp256k1_ecdsa_sign(ctx, &signature, msg, key, secp256k1_nonce_function_rfc6979, ndata);
    SECP256K1_CHECKMEM_DEFINE(&signature, sizeof(signature));
    RELEASE_RET();
    CHECK(ret);
    SECP256K1_CHECKMEM_UNDEFINE(key, 32);
    ret = secp256k1_ecdsa_sign_recoverable(ctx, &rsig, msg, key, secp256k1_nonce_function_rfc6979, ndata);
    SECP256K1_CHECKMEM_DEFINE(&rsig, sizeof(rsig));
    RELEASE_RET();
    CHECK(ret);

    /* public-key creation feeding ECDH with a caller-supplied hash function */
    SECP256K1_CHECKMEM_UNDEFINE(key, 32);
    ret = secp256k1_ec_pubkey_create(ctx, &pubkey, key);
    SECP256K1_CHECKMEM_DEFINE(&pubkey, sizeof(pubkey));
    RELEASE_RET();
    CHECK(ret);
    SECP256K1_CHECKMEM_UNDEFINE(key, 32);
    ret = secp256k1_ecdh(ctx, out, &pubkey, key, my_ecdh_hash, NULL);
    RELEASE_RET();
    CHECK(ret == 1);

    /* secret-key tweaks with a public tweak */
    SECP256K1_CHECKMEM_UNDEFINE(key, 32);
    SECP256K1_CHECKMEM_DEFINE(msg, 32);
    ret = secp256k1_ec_seckey_tweak_add(ctx, key, msg);
    RELEASE_RET();
    CHECK(ret == 1);
    SECP256K1_CHECKMEM_UNDEFINE(key, 32);
    ret = secp256k1_ec_seckey_tweak_mul(ctx, key, msg);
    RELEASE_RET();
    CHECK(ret == 1);

    /* Schnorr: auxiliary randomness present, variable-length messages, extraparams with caller data */
    SECP256K1_CHECKMEM_UNDEFINE(key, 32);
    ret = secp256k1_keypair_create(ctx, &keypair, key);
    RELEASE_RET();
    CHECK(ret == 1);
    SECP256K1_CHECKMEM_UNDEFINE(auxrnd, 32);
    ret = secp256k1_schnorrsig_sign32(ctx, sig, msg, &keypair, auxrnd);
    RELEASE_RET();
    CHECK(ret == 1);
    ret = secp256k1_schnorrsig_sign_custom(ctx, sig, longmsg, 0, &keypair, NULL);
    RELEASE_RET();
    CHECK(ret == 1);
    ret = secp256k1_schnorrsig_sign_custom(ctx, sig, longmsg, sizeof(longmsg), &keypair, NULL);
    RELEASE_RET();
    CHECK(ret == 1);
    {
        secp256k1_schnorrsig_extraparams extraparams = SECP256K1_SCHNORRSIG_EXTRAPARAMS_INIT;
        extraparams.ndata = auxrnd;
        ret = secp256k1_schnorrsig_sign_custom(ctx, sig, longmsg, 33, &keypair, &extraparams);
        RELEASE_RET();
        CHECK(ret == 1);
        extraparams.noncefp = secp256k1_nonce_function_bip340;
        ret = secp256k1_schnorrsig_sign_custom(ctx, sig, longmsg, 64, &keypair, &extraparams);
        RELEASE_RET();
        CHECK(ret == 1);
    }

    /* ElligatorSwift with secret auxiliary randomness */
    SECP256K1_CHECKMEM_UNDEFINE(key, 32);
    SECP256K1_CHECKMEM_UNDEFINE(auxrnd, 32);
    ret = secp256k1_ellswift_create(ctx, ellswift, key, auxrnd);
    RELEASE_RET();
    CHECK(ret == 1);

    /* MuSig: 2 and 3 signers, plain and x-only tweaks, no adaptor, optional nonce_gen arguments absent */
    {
        int n;
        for (n = 2; n <= 3; n++) {
            secp256k1_pubkey pk[3];
            const secp256k1_pubkey *pk_ptr[3];
            unsigned char sk[3][32];
            secp256k1_keypair kp[3];
            secp256k1_xonly_pubkey agg_pk;
            secp256k1_musig_keyagg_cache cache;
            secp256k1_musig_secnonce secnonce[3];
            secp256k1_musig_pubnonce pubnonce[3];
            const secp256k1_musig_pubnonce *pubnonce_ptr[3];
            secp256k1_musig_aggnonce aggnonce;
            secp256k1_musig_session session;
            secp256k1_musig_partial_sig psig[3];
            const secp256k1_musig_partial_sig *psig_ptr[3];
            unsigned char secrand[3][32];
            unsigned char final_sig[64];
            int j;

            SECP256K1_CHECKMEM_DEFINE(key, 32);
            for (j = 0; j < n; j++) {
                memcpy(sk[j], key, 32);
                sk[j][31] = (unsigned char)(sk[j][31] + j + 1);
                memcpy(secrand[j], key, 32);
                secrand[j][0] = (unsigned char)(secrand[j][0] + 16 + j);
                CHECK(secp256k1_keypair_create(ctx, &kp[j], sk[j]));
                CHECK(secp256k1_keypair_pub(ctx, &pk[j], &kp[j]));
                pk_ptr[j] = &pk[j];
                pubnonce_ptr[j] = &pubnonce[j];
                psig_ptr[j] = &psig[j];
            }
            CHECK(secp256k1_musig_pubkey_agg(ctx, &agg_pk, &cache, pk_ptr, n));
            CHECK(secp256k1_musig_pubkey_ec_tweak_add(ctx, NULL, &cache, msg));
            CHECK(secp256k1_musig_pubkey_xonly_tweak_add(ctx, NULL, &cache, ndata));

            for (j = 0; j < n; j++) {
                SECP256K1_CHECKMEM_UNDEFINE(sk[j], 32);
                SECP256K1_CHECKMEM_UNDEFINE(secrand[j], 32);
                if (j == 0) {
                    /* all optional arguments absent */
                    ret = secp256k1_musig_nonce_gen(ctx, &secnonce[j], &pubnonce[j], secrand[j], NULL, &pk[j], NULL, NULL, NULL);
                } else {
                    ret = secp256k1_musig_nonce_gen(ctx, &secnonce[j], &pubnonce[j], secrand[j], sk[j], &pk[j], msg, &cache, NULL);
                }
                RELEASE_RET();
                CHECK(ret == 1);
            }
            CHECK(secp256k1_musig_nonce_agg(ctx, &aggnonce, pubnonce_ptr, n));
            CHECK(secp256k1_musig_nonce_process(ctx, &session, &aggnonce, msg, &cache, NULL) == 1);
            for (j = 0; j < n; j++) {
                ret = secp256k1_keypair_create(ctx, &kp[j], sk[j]);
                RELEASE_RET();
                CHECK(ret == 1);
                ret = secp256k1_musig_partial_sign(ctx, &psig[j], &secnonce[j], &kp[j], &cache, &session);
                RELEASE_RET();
                CHECK(ret == 1);
                SECP256K1_CHECKMEM_DEFINE(&psig[j], sizeof(psig[j]));
            }
            CHECK(secp256k1_musig_partial_sig_agg(ctx, final_sig, &session, psig_ptr, n));
        }
    }

    /* sign-to-contract signing and adaptor encryption with explicit nonce function and caller data */
    {
        unsigned char s2c_data[32] = {1};
        secp256k1_ecdsa_s2c_opening s2c_opening;
        unsigned char adaptor_sig[162];
        unsigned char deckey[32];
        secp256k1_pubkey enckey;

        SECP256K1_CHECKMEM_DEFINE(key, 32);
        for (i = 0; i < 32; i++) {
            deckey[i] = i + 2;
        }
        SECP256K1_CHECKMEM_UNDEFINE(key, 32);
        SECP256K1_CHECKMEM_UNDEFINE(s2c_data, 32);
        ret = secp256k1_anti_exfil_sign(ctx, &signature, msg, key, s2c_data);
        RELEASE_RET();
        CHECK(ret == 1);
        (void)s2c_opening;

        CHECK(secp256k1_ec_pubkey_create(ctx, &enckey, deckey) == 1);
        SECP256K1_CHECKMEM_UNDEFINE(key, 32);
        ret = secp256k1_ecdsa_adaptor_encrypt(ctx, adaptor_sig, key, &enckey, msg, secp256k1_nonce_function_ecdsa_adaptor, ndata);
        SECP256K1_CHECKMEM_DEFINE(adaptor_sig, sizeof(adaptor_sig));
        RELEASE_RET();
        CHECK(ret == 1);
    }
}

int main(void) {
    secp256k1_context *ctx;
    unsigned char key[32];
    unsigned char seed[32];
    int ret, i;

    ctx = secp256k1_context_create(SECP256K1_CONTEXT_DECLASSIFY);
    for (i = 0; i < 32; i++) {
        key[i] = i + 65;
        seed[i] = 200 - i;
    }
    /* unrandomized context */
    variants(ctx, key);

    /* the same calls on a context randomized through the real API with a secret seed */
    SECP256K1_CHECKMEM_DEFINE(key, 32);
    SECP256K1_CHECKMEM_UNDEFINE(seed, 32);
    ret = secp256k1_context_randomize(ctx, seed);
    SECP256K1_CHECKMEM_DEFINE(&ret, sizeof(ret));
    CHECK(ret);
    variants(ctx, key);

    /* and after removing the randomization again */
    CHECK(secp256k1_context_randomize(ctx, NULL));
    {
        secp256k1_ecdsa_signature s2;
        unsigned char m2[32] = {9};
        SECP256K1_CHECKMEM_DEFINE(key, 32);
        SECP256K1_CHECKMEM_UNDEFINE(key, 32);
        ret = secp256k1_ecdsa_sign(ctx, &s2, m2, key, NULL, NULL);
        SECP256K1_CHECKMEM_DEFINE(&s2, sizeof(s2));
        SECP256K1_CHECKMEM_DEFINE(&ret, sizeof(ret));
        CHECK(ret);
    }

    secp256k1_context_destroy(ctx);
    return EXIT_SUCCESS;
}
