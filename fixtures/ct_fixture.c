/* Positive control for the C06 engine: a secret marked exactly the way src/ctime_tests.c marks secrets
 * must be reported when it steers a branch, a memory address, a division and a copy length;
 * after declassification nothing may be reported. */
#include <stddef.h>
#include <string.h>
extern int __verif_mem_undefine(const void *p, size_t len);
extern int __verif_mem_define(const void *p, size_t len);
static unsigned char table[256];
static int sink_branch(const unsigned char *k) { if (k[3] & 1) return 7; return 9; }
static int sink_address(const unsigned char *k) { return table[k[5]]; }
static int sink_division(const unsigned char *k) { return 1000 / (k[6] | 1); }
static void sink_length(unsigned char *dst, const unsigned char *src, const unsigned char *k) { memcpy(dst, src, k[7] & 15); }
static int clean_after_declassify(const unsigned char *k) { if (k[8] & 1) return 1; return 2; }
int main(void) {
    unsigned char key[32] = {0};
    unsigned char buf[32] = {0}, out[32];
    int r = 0;
    __verif_mem_undefine(key, 32);
    r += sink_branch(key);
    r += sink_address(key);
    r += sink_division(key);
    sink_length(out, buf, key);
    __verif_mem_define(key, 32);
    r += clean_after_declassify(key);
    return r;
}
