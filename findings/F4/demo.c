/* F4: in the 10x26 field representation (32-bit limbs, USE_FORCE_WIDEMUL_INT64) the first pass of every normalisation adds
 * x * 0x3D1 to limb 0 in 32-bit arithmetic.  For a field element at the limb bounds of magnitude 32 — which the field
 * API hands out through secp256k1_fe_get_bounds(r, 32) and secp256k1_fe_verify accepts — limb 0 is 0xFFFFFFC0 and
 * x = 63, so the addition wraps and 2^32 is lost: the normalised element is a different residue.
 *
 * Build (from the repository root):  cc -I src -I include -DUSE_FORCE_WIDEMUL_INT64=1 -DECMULT_WINDOW_SIZE=15 \
 *     -DCOMB_BLOCKS=43 -DCOMB_TEETH=6 -o demo demo.c src/precomputed_ecmult.c src/precomputed_ecmult_gen.c
 * exit 0: normalize(get_bounds(32)) == 2 * normalize(get_bounds(16));  exit 1: they differ. */
#include <stdio.h>
#include <string.h>
#include "secp256k1.c"

int main(void) {
    secp256k1_fe a, h, twice;
    unsigned char ba[32], bt[32];
    int m, bad = 0;
    for (m = 2; m <= 32; m += 2) {
        secp256k1_fe_get_bounds(&a, m);          /* limbs 2*m*max */
        secp256k1_fe_get_bounds(&h, m / 2);      /* limbs m*max: exactly half of a's limbs */
        secp256k1_fe_normalize(&h);
        twice = h;
        secp256k1_fe_add(&twice, &h);            /* the same value as a, by a route that cannot wrap */
        secp256k1_fe_normalize(&twice);
        secp256k1_fe_normalize_weak(&a);
        secp256k1_fe_normalize(&a);
        secp256k1_fe_get_b32(ba, &a);
        secp256k1_fe_get_b32(bt, &twice);
        if (memcmp(ba, bt, 32) != 0) {
            int i;
            printf("magnitude %d: normalize_weak(get_bounds(%d)) is not the value of the element\n  got      ", m, m);
            for (i = 0; i < 32; i++) printf("%02x", ba[i]);
            printf("\n  expected ");
            for (i = 0; i < 32; i++) printf("%02x", bt[i]);
            printf("\n");
            bad = 1;
        }
    }
    if (!bad) printf("all magnitudes agree\n");
    return bad;
}
