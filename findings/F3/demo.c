/* F3 demonstration: secp256k1_ellswift_create is documented "constant time in seckey and auxrnd32"; with auxrnd32 marked
 * secret (undefined for memcheck, exactly as src/ctime_tests.c marks keys) the variable-time encoding search branches on it. */
#include <stdio.h>
#include <string.h>
#include <valgrind/memcheck.h>
#include <secp256k1.h>
#include <secp256k1_ellswift.h>
int main(void) {
    secp256k1_context *ctx = secp256k1_context_create(SECP256K1_CONTEXT_DECLASSIFY);
    unsigned char key[32], aux[32], ell[64];
    int i, ret;
    for (i = 0; i < 32; i++) { key[i] = i + 65; aux[i] = 5 * i + 11; }
    VALGRIND_MAKE_MEM_UNDEFINED(key, 32);
    VALGRIND_MAKE_MEM_UNDEFINED(aux, 32);
    ret = secp256k1_ellswift_create(ctx, ell, key, aux);
    VALGRIND_MAKE_MEM_DEFINED(&ret, sizeof(ret));
    printf("ret=%d\n", ret);
    secp256k1_context_destroy(ctx);
    return 0;
}
