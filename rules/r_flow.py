"""R-FLOW — value / length identity flow (DESIGN §4).

(a) sanitiser instances: named bytes must reach a named consumer only after a
    decode (RFC 6979 must be keyed with msg mod n, not the raw message).
(b) length identity: a caller's length parameter must arrive unmodified at the
    absorbing hash write together with the pointer it describes.
(c) cursor discipline inside secp256k1_sha256_write.
"""
from sxlib import *
from pflow import pflow
from core import Obligation

# (function, parameter, required kind, forbidden kind, why, properties)
_WHY6979 = "RFC 6979 3.2d keys the DRBG with the message reduced mod n (bits2octets); raw bytes differ for messages >= n"
# decided at the two entry points that hand a caller's message to the generator (interprocedural summaries): the public
# nonce function, which anti-exfil's signer_commit and every caller of secp256k1_nonce_function_default reach, and the
# signing loop; the shared helper is examined too while it still has the parameter (where the reduction happens is free)
SANITISE = [
    ("nonce_function_rfc6979", "msg32", "rfc6979_key:scalar-decoded", "rfc6979_key:raw", _WHY6979, {"C01", "C05", "C15"}, False),
    ("secp256k1_ecdsa_sign_inner", "msg32", "rfc6979_key:scalar-decoded", "rfc6979_key:raw", _WHY6979, {"C01", "C05", "C15"}, False),
    ("nonce_function_rfc6979_impl", "msg32", "rfc6979_key:scalar-decoded", "rfc6979_key:raw", _WHY6979, {"C01", "C05", "C15"}, True),
]

# length identity: (function, pointer param, length param, absorbing callee, ptr arg idx, len arg idx, properties)
LENGTH_ID = [
    ("secp256k1_schnorrsig_challenge", "msg", "msglen", "secp256k1_sha256_write", 2, 3, {"C02"}),
    ("secp256k1_tagged_sha256", "msg", "msglen", "secp256k1_sha256_write", 2, 3, {"C05", "C02"}),
    ("secp256k1_tagged_sha256", "tag", "taglen", "secp256k1_sha256_initialize_tagged", 2, 3, {"C05", "C02"}),
    ("secp256k1_sha256_initialize_tagged", "tag", "taglen", "secp256k1_sha256_write", 2, 3, {"C05", "C02"}),
    ("nonce_function_bip340_impl", "msg", "msglen", "secp256k1_sha256_write", 2, 3, {"C02"}),
    ("secp256k1_musig_compute_noncehash", "msg", None, "secp256k1_sha256_write", 2, 3, {"C12"}),
    ("secp256k1_hmac_sha256_write", "data", "size", "secp256k1_sha256_write", 2, 3, {"C05"}),
]

# pass-through: (caller, callee, caller param, callee parameter name, properties): the argument must be exactly the parameter
PASS_THROUGH = [
    ("secp256k1_schnorrsig_sign_custom", "secp256k1_schnorrsig_sign_internal", "msglen", "msglen", {"C02"}),
    ("secp256k1_schnorrsig_sign_custom", "secp256k1_schnorrsig_sign_internal", "msg", "msg", {"C02"}),
    ("secp256k1_schnorrsig_sign_internal", "secp256k1_schnorrsig_challenge", "msglen", "msglen", {"C02"}),
    ("secp256k1_schnorrsig_sign_internal", "secp256k1_schnorrsig_challenge", "msg", "msg", {"C02"}),
    ("secp256k1_schnorrsig_verify", "secp256k1_schnorrsig_challenge", "msglen", "msglen", {"C02"}),
    ("secp256k1_schnorrsig_verify", "secp256k1_schnorrsig_challenge", "msg", "msg", {"C02"}),
    ("secp256k1_ec_pubkey_sort", "secp256k1_hsort", "n_pubkeys", "count", {"C04"}),
    ("secp256k1_ec_pubkey_sort", "secp256k1_hsort", "pubkeys", "ptr", {"C04"}),
    # the host accepts exactly the signature it was given: no normalised / re-encoded copy reaches either verdict
    ("secp256k1_anti_exfil_host_verify", "secp256k1_ecdsa_verify", "sig", "sig", {"C15"}),
    ("secp256k1_anti_exfil_host_verify", "secp256k1_ecdsa_s2c_verify_commit", "sig", "sig", {"C15"}),
    ("secp256k1_anti_exfil_host_verify", "secp256k1_ecdsa_verify", "msg32", "msghash32", {"C15"}),
    ("secp256k1_anti_exfil_host_verify", "secp256k1_ecdsa_verify", "pubkey", "pubkey", {"C15"}),
    ("secp256k1_anti_exfil_host_verify", "secp256k1_ecdsa_s2c_verify_commit", "host_data32", "data32", {"C15"}),
    ("secp256k1_anti_exfil_host_verify", "secp256k1_ecdsa_s2c_verify_commit", "opening", "opening", {"C15"}),
]


def _assigned_anywhere(fn, var):
    for el in fn.elems():
        for (n, op, rhs, via) in defs_in_elem(el.e):
            if n == var:
                return el
    return None


def obligations(prog):
    obs = []
    pf = pflow(prog)
    for (fname, p, need, forbid, why, props, optional) in SANITISE:
        f = prog.functions.get(fname) if optional else prog.fn(fname)
        if optional and (f is None or p not in f.param_index):
            continue
        if p not in f.param_index:
            raise AnalysisBroken("R-FLOW: parameter %s of %s vanished" % (p, fname))
        kinds = {k for (o, k, l) in pf.summary(fname).get(f.param_index[p], ())}
        locs = sorted({l for (o, k, l) in pf.summary(fname).get(f.param_index[p], ()) if k in (need, forbid)})
        ok = need in kinds and forbid not in kinds
        obs.append(Obligation("R-FLOW", "R-FLOW:san:%s:%s" % (fname, p), f.loc, fname,
                              "bytes of %s must reach the consumer only as %s (%s)" % (p, need, why), ok,
                              ("arrives as: %s at %s" % (", ".join(sorted(k for k in kinds if k.startswith(need.split(':')[0]))) or "nothing", ", ".join(locs) or "-")),
                              props=props))
    for (fname, ptr, ln, callee, pi, li, props) in LENGTH_ID:
        f = prog.fn(fname)
        sites = [(el, c) for el, c in f.all_calls() if callee_name(c) == callee and len(c[3]) > max(pi, li)
                 and kind(strip(c[3][pi])) == "var" and strip(c[3][pi])[1] == ptr]
        oid = "R-FLOW:len:%s:%s" % (fname, ptr)
        text = "the whole of %s (all %s bytes) must be absorbed by %s" % (ptr, ln or "given", callee)
        if not sites:
            obs.append(Obligation("R-FLOW", oid, f.loc, fname, text, False,
                                  "no call %s(..., %s, ...) with the unmodified pointer found" % (callee, ptr), props=props))
            continue
        for el, c in sites:
            la = strip(c[3][li])
            if ln is None:
                ok = kind(la) == "int" or kind(la) == "var"
                det = "length argument %s" % show(la)
            else:
                ok = kind(la) == "var" and la[1] == ln
                det = "length argument is `%s`" % show(c[3][li])
                if ok:
                    a = _assigned_anywhere(f, ln)
                    if a is not None:
                        ok = False
                        det = "%s is modified at %s before being absorbed" % (ln, a.loc)
                    a = _assigned_anywhere(f, ptr)
                    if ok and a is not None:
                        ok = False
                        det = "%s is modified at %s before being absorbed" % (ptr, a.loc)
            obs.append(Obligation("R-FLOW", oid, c[2], fname, text, ok, det, props=props))
    for (caller, callee, p, cp, props) in PASS_THROUGH:
        f = prog.fn(caller)
        g = prog.fn(callee)
        if cp not in g.param_index or p not in f.param_index:
            raise AnalysisBroken("R-FLOW: parameter %s of %s / %s of %s vanished" % (p, caller, cp, callee))
        ai = g.param_index[cp]
        sites = [(el, c) for el, c in f.all_calls() if callee_name(c) == callee]
        oid = "R-FLOW:pass:%s:%s:%s" % (caller, callee, p)
        text = "%s must hand its parameter %s unmodified to %s" % (caller, p, callee)
        if not sites:
            obs.append(Obligation("R-FLOW", oid, f.loc, caller, text, False, "no call to %s found" % callee, props=props))
            continue
        for el, c in sites:
            a = strip(c[3][ai]) if ai < len(c[3]) else None
            ok = kind(a) == "var" and a[1] == p
            det = "argument is `%s`" % show(c[3][ai] if ai < len(c[3]) else None)
            if ok:
                m = _assigned_anywhere(f, p)
                if m is not None:
                    ok, det = False, "%s is modified at %s" % (p, m.loc)
            obs.append(Obligation("R-FLOW", oid, c[2], caller, text, ok, det, props=props))
    obs += cursor_obligations(prog)
    obs += block_consumer_obligations(prog)
    cb = callback_data_obligations(prog)
    obs += cb
    return obs, {"sanitise": len(SANITISE), "length_id": len(LENGTH_ID), "pass_through": len(PASS_THROUGH), "callback_data_sites": len(cb)}


# (function-pointer parameter, the opaque data parameter that belongs to it)
CALLBACK_PAIRS = [("noncefp", "noncedata"), ("noncefp", "ndata"), ("hashfp", "data"), ("cmp", "cmp_data"), ("cb", "cbdata")]


def callback_data_obligations(prog):
    """A caller-supplied callback travels with its caller-supplied data pointer: wherever a function hands its
    function-pointer parameter on (or calls through it), the paired data parameter is among the arguments of that call.
    Sees `secp256k1_dleq_prove(.., noncefp, NULL)` — the custom nonce function is invoked without its state."""
    from core import props_of_function
    obs = []
    for f in sorted(prog.functions.values(), key=lambda x: x.name):
        if not f.blocks or not f.file.startswith("src/") or f.file.endswith("tests_impl.h") or \
                f.file.startswith(("src/bench", "src/tests", "src/testrand", "src/unit_test", "src/ctime")):
            continue
        for (pn, dn) in CALLBACK_PAIRS:
            if pn not in f.param_index or dn not in f.param_index:
                continue
            n = 0
            for el, c in f.all_calls():
                through = isinstance(c[1], list) and any(x[0] == "var" and x[1] == pn for x in walk(c[1]))
                passes = any(kind(strip(a)) == "var" and strip(a)[1] == pn for a in c[3])
                if not (through or passes):
                    continue
                n += 1
                has_data = any(any(x[0] == "var" and x[1] == dn for x in walk(a)) for a in c[3])
                what = "calls through %s" % pn if through else "hands %s to %s" % (pn, callee_name(c))
                obs.append(Obligation("R-FLOW", "R-FLOW:cbdata:%s:%s#%d" % (f.name, pn, n), c[2], f.name,
                                      "%s %s: the caller's %s must be among the arguments of that call" % (f.name, what, dn), has_data,
                                      "arguments: %s" % ", ".join(show(a)[:30] for a in c[3]), props=props_of_function(f) | {"C07"}))
    if len(obs) < 10:
        raise AnalysisBroken("R-FLOW: only %d callback/data call sites found (floor 10)" % len(obs))
    return obs


def cursor_obligations(prog):
    """R-CUR: in secp256k1_sha256_write every change of the remaining length `len` is `len -= e`
    paired (same block) with `data += e` for the same expression e, and nothing else assigns len/data."""
    f = prog.fn("secp256k1_sha256_write")
    props = {"C05", "C02"}
    lenp, datap = None, None
    for p in f.params:
        if p["name"] in ("len",):
            lenp = p["name"]
        if p["name"] in ("data",):
            datap = p["name"]
    if lenp is None or datap is None:
        raise AnalysisBroken("R-CUR: secp256k1_sha256_write no longer has parameters data/len")
    obs = []
    n = 0
    for b in f.blocks.values():
        lens = []
        datas = []
        for el in b.elems:
            if not el.top:
                continue
            for x in walk(el.e):
                if x[0] == "assign" and kind(strip(x[2])) == "var":
                    v = strip(x[2])[1]
                    if v == lenp:
                        lens.append((el, x))
                    if v == datap:
                        datas.append((el, x))
                if x[0] == "incdec" and kind(strip(x[3])) == "var" and strip(x[3])[1] in (lenp, datap):
                    (lens if strip(x[3])[1] == lenp else datas).append((el, x))
        for el, x in lens:
            n += 1
            ok = x[0] == "assign" and x[1] == "-="
            det = "`%s`" % show(x)
            if ok:
                pair = [d for (e2, d) in datas if d[0] == "assign" and d[1] == "+=" and d[3] == x[3]]
                if not pair:
                    ok = False
                    det += " has no matching `%s += %s` in the same block" % (datap, show(x[3]))
                else:
                    det += " paired with `%s`" % show(pair[0])
            else:
                det += " is not of the form `%s -= e`" % lenp
            obs.append(Obligation("R-FLOW", "R-FLOW:cur:sha256_write:len#%d" % n, el.loc, f.name,
                                  "the remaining-length cursor of secp256k1_sha256_write only moves together with the data pointer by the amount consumed",
                                  ok, det, props=props))
        for el, d in datas:
            if not any(x[0] == "assign" and x[1] == "-=" and d[0] == "assign" and x[3] == d[3] for (e2, x) in lens):
                n += 1
                obs.append(Obligation("R-FLOW", "R-FLOW:cur:sha256_write:data#%d" % n, el.loc, f.name,
                                      "the data pointer of secp256k1_sha256_write only moves together with the remaining length",
                                      False, "`%s` has no matching `%s -= e`" % (show(d), lenp), props=props))
    if n == 0:
        raise AnalysisBroken("R-CUR: no cursor updates found in secp256k1_sha256_write")
    # the loop / tail conditions must compare against the block size constant 64 only through len
    return obs


# block consumers: (function, pointer param, counter param, per-block consumer, block bytes)
BLOCK_CONSUMERS = [
    ("secp256k1_sha256_transform", "blocks64", "n_blocks", "secp256k1_sha256_transform_impl", 64, {"C05", "C02"}),
]


def _ptr_offset(e, ptr):
    """e == ptr -> 0, ptr + c -> c, &ptr[c] -> c; else None."""
    e = strip(e)
    if kind(e) == "var" and e[1] == ptr:
        return 0
    if kind(e) == "bin" and e[1] == "+" and kind(strip(e[2])) == "var" and strip(e[2])[1] == ptr:
        return int_val(e[3])
    if kind(e) == "addr" and kind(strip(e[1])) == "index" and kind(strip(strip(e[1])[1])) == "var" and strip(strip(e[1])[1])[1] == ptr:
        return int_val(strip(e[1])[2])
    return None


def _indexed_block(a, ptr):
    """(scale, index variable) when a is `ptr + scale * v` / `ptr + v * scale` / `&ptr[scale * v]`, else None."""
    a = strip(a)
    if kind(a) == "addr" and kind(strip(a[1])) == "index":
        ix = strip(a[1])
        base, off = strip(ix[1]), strip(ix[2])
    elif kind(a) == "bin" and a[1] == "+":
        base, off = strip(a[2]), strip(a[3])
    else:
        return None
    if kind(base) != "var" or base[1] != ptr or kind(off) != "bin" or off[1] != "*":
        return None
    l, r = strip(off[2]), strip(off[3])
    if is_int(l) and kind(r) == "var":
        return int_val(l), r[1]
    if is_int(r) and kind(l) == "var":
        return int_val(r), l[1]
    return None


def block_consumer_obligations(prog):
    """R-CUR (multi-block form): every iteration of a loop that feeds fixed-size blocks to a consumer must consume
    consecutive blocks starting at the cursor, advance the cursor by exactly the bytes consumed and decrement the block
    counter by exactly the number of blocks consumed; consumer calls outside loops consume one block each and need no advance."""
    obs = []
    for (fname, ptr, cntv, consumer, bs, props) in BLOCK_CONSUMERS:
        f = prog.fn(fname)
        if ptr not in f.param_index or cntv not in f.param_index:
            raise AnalysisBroken("R-CUR: %s lost its parameters %s / %s" % (fname, ptr, cntv))
        dom = f.dominators()
        heads = sorted({s for s in f.blocks for p in f.blocks[s].preds if p in dom and s in dom[p]})
        total_calls = len([1 for el, c in f.all_calls() if callee_name(c) == consumer])
        if total_calls == 0:
            raise AnalysisBroken("R-CUR: %s no longer calls %s" % (fname, consumer))
        n = 0
        in_loops = 0
        for h in heads:
            body = {b for b in f.reachable_from(h) if h in f.reachable_from(b)} | {h}
            order = [b for b in f.rpo() if b in body]
            offs, adv, dec, odd, indexed = [], 0, 0, [], []
            for b in order:
                blk = f.blocks[b]
                for el in blk.elems:
                    if not el.top:
                        continue
                    for x in walk(el.e):
                        k = kind(x)
                        if k == "call" and callee_name(x) == consumer:
                            o = None
                            for a in x[3]:
                                o = _ptr_offset(a, ptr)
                                if o is not None:
                                    break
                            if o is None:
                                ix = None
                                for a in x[3]:
                                    ix = ix or _indexed_block(a, ptr)
                                if ix is not None:
                                    indexed.append((ix, x[2]))
                                else:
                                    odd.append("consumer argument not of the form %s + c at %s" % (ptr, x[2]))
                            else:
                                offs.append(adv + o)
                        elif k == "assign" and kind(strip(x[2])) == "var" and strip(x[2])[1] == ptr:
                            c = int_val(x[3]) if x[1] == "+=" else (_ptr_offset(x[3], ptr) if x[1] == "=" else None)
                            if c is None:
                                odd.append("cursor update `%s` is not %s += constant" % (show(x), ptr))
                            else:
                                adv += c
                        elif k == "incdec" and kind(strip(x[3])) == "var" and strip(x[3])[1] == ptr:
                            adv += 1 if x[1] == "++" else -1
                        elif k == "assign" and kind(strip(x[2])) == "var" and strip(x[2])[1] == cntv:
                            c = int_val(x[3]) if x[1] == "-=" else None
                            if c is None:
                                odd.append("counter update `%s` is not %s -= constant" % (show(x), cntv))
                            else:
                                dec += c
                        elif k == "incdec" and kind(strip(x[3])) == "var" and strip(x[3])[1] == cntv:
                            dec += 1 if x[1] == "--" else -1
            if indexed and not offs:
                # indexed form: for (i = 0; i < n_blocks; i++) consumer(.., ptr + bs * i): block i at offset bs * i, the cursor and the
                # counter are left alone, the counter variable i goes up by one per iteration and is bounded by the block count
                n += 1
                (scale, iv), loc_ = indexed[0]
                incs = sum(1 for b in body for el in f.blocks[b].elems if el.top for x in walk(el.e)
                           if kind(x) == "incdec" and x[1] == "++" and kind(strip(x[3])) == "var" and strip(x[3])[1] == iv)
                bounded = any(f.blocks[b].cond is not None and kind(strip(f.blocks[b].cond)) == "bin" and strip(f.blocks[b].cond)[1] == "<"
                              and kind(strip(strip(f.blocks[b].cond)[2])) == "var" and strip(strip(f.blocks[b].cond)[2])[1] == iv
                              and kind(strip(strip(f.blocks[b].cond)[3])) == "var" and strip(strip(f.blocks[b].cond)[3])[1] == cntv for b in body)
                ok = len(indexed) == 1 and scale == bs and incs == 1 and bounded and adv == 0 and dec == 0 and not odd
                obs.append(Obligation("R-FLOW", "R-FLOW:blocks:%s:loop#%d" % (fname, n), loc_, fname,
                                      "each iteration must compress the next %d-byte block: block i at %s + %d*i for i = 0 .. %s - 1" % (bs, ptr, bs, cntv),
                                      ok, "indexed form: block at %s + %d*%s, %s incremented %d time(s) per iteration, %sbounded by %s%s"
                                      % (ptr, scale, iv, iv, incs, "" if bounded else "NOT ", cntv, ("; " + "; ".join(odd)) if odd else ""), props=props))
                continue
            if not offs:
                continue
            in_loops += len(offs)
            n += 1
            kk = len(offs)
            ok = not odd and sorted(offs) == [bs * j for j in range(kk)] and adv == bs * kk and dec == kk
            obs.append(Obligation("R-FLOW", "R-FLOW:blocks:%s:loop#%d" % (fname, n), f.blocks[h].term["loc"] if f.blocks[h].term else f.loc, fname,
                                  "each iteration must compress consecutive %d-byte blocks from the cursor, advance %s by the bytes consumed and count %s down by the blocks consumed" % (bs, ptr, cntv),
                                  ok, "blocks consumed at offsets %s, cursor advanced by %d, counter decremented by %d%s"
                                  % (sorted(offs), adv, dec, ("; " + "; ".join(odd)) if odd else ""), props=props))
        if n == 0:
            raise AnalysisBroken("R-CUR: no block-consuming loop found in %s" % fname)
    return obs


if __name__ == "__main__":
    prog = program("K0")
    obs, st = obligations(prog)
    print(st)
    for o in obs:
        print("OK  " if o.ok else "VIOL", o.oid, o.loc, o.detail)
