"""limbs — exact integer forms for limb arithmetic (DESIGN §3.6).

An abstract interpreter for the straight-line multi-precision kernels (scalar multiply / square / reduce, field multiply /
square, the portable 64x64->128 multiply).  Nothing is executed; every machine integer is described by

  * a *form*: a polynomial with integer coefficients over atoms, equal to the variable's value as a mathematical integer
    (not modulo anything) — atoms are the input limbs and *quotient atoms* q = floor(F / M), one for every place where
    the code can lose the top of a value F: a wrap of an addition or multiplication at the width it is carried out in
    (M = 2^w), a narrowing conversion, a right shift (the quotient is the result), a mask with 2^k - 1 (the remainder
    F - M q is the result);
  * an upper bound (lower bounds are 0: the kernels are unsigned).

A wrap that the bounds exclude creates no atom.  When the interval bound is too weak (the last column of a product
accumulator: c1 + th < 2^64 holds only because the whole product is below 2^512) the bound is taken from the forms
themselves: quotient atoms are replaced, latest first, by F/M (positive occurrences) or (F - M + 1)/M (negative ones);
the carries that the code propagated cancel exactly in rational arithmetic and what is left is a polynomial in the input
limbs with non-negative coefficients, maximal where every limb is maximal.

The carry idioms of the code are recognised semantically, not textually: for x = (u + v) mod M the expression `x < v`
(any expression whose form equals an addend) *is* the quotient atom of that addition; `k & (x == 0)` after x = (x' + k)
mod M with k in {0,1} is that quotient too.

What a client rule checks is a polynomial identity between the forms of the outputs and the specification (sum of
l8[j] 2^(64 j) = a b; sum of r[k] 2^(52 k) = a b modulo p, coefficient by coefficient).  A quotient atom that survives in
the residual is a carry the code dropped although it can be non-zero — reported with the statement that created it.
Shapes the interpreter does not know (data-dependent control flow, signed arithmetic, unknown callees) make the function
*not decided*; that is never an alarm.
"""
from fractions import Fraction
from sxlib import kind, strip, show, int_val

# ------------------------------------------------------------------ polynomials: {monomial (sorted tuple of atom ids): coefficient}


def pconst(c):
    return {(): c} if c else {}


def patom(a):
    return {(a,): 1}


def padd(p, q, s=1):
    r = dict(p)
    for m, c in q.items():
        v = r.get(m, 0) + s * c
        if v:
            r[m] = v
        else:
            r.pop(m, None)
    return r


def pscale(p, c):
    if not c:
        return {}
    return {m: v * c for m, v in p.items()}


def pmul(p, q):
    r = {}
    for m1, c1 in p.items():
        for m2, c2 in q.items():
            m = tuple(sorted(m1 + m2))
            v = r.get(m, 0) + c1 * c2
            if v:
                r[m] = v
            else:
                r.pop(m, None)
    return r


def pkey(p):
    return tuple(sorted(p.items()))


class Val:
    __slots__ = ("p", "ub", "add", "mask", "neg")

    def __init__(self, p, ub, add=None, mask=None, neg=None):
        self.p = p
        self.ub = ub
        self.add = add        # (M, [addend polys], quotient poly) when the value is (u + v) mod M
        self.mask = mask      # (w, beta): the value is beta (2^w - 1) for a form beta with values in {0, 1} (a select mask)
        self.neg = neg        # beta: the (signed) value is -beta, beta in {0, 1}; becomes a mask when converted to an unsigned type


ZERO = Val({}, 0)


class Undecided(Exception):
    pass


class Frame:
    def __init__(self, f, prefix):
        self.f = f
        self.prefix = prefix
        self.ptr = {}          # pointer parameter -> (base key, is_array)
        self.ret = None


_INT_TYPES = {
    "unsigned long": (64, False), "unsigned int": (32, False), "unsigned __int128": (128, False), "unsigned char": (8, False),
    "long": (64, True), "int": (32, True), "__int128": (128, True), "unsigned short": (16, False), "short": (16, True),
    "unsigned long long": (64, False), "long long": (64, True), "char": (8, True), "signed char": (8, True),
}


def _parse_type(t):
    """('int', bits, signed) | ('struct', name) | ('ptr', T) | ('arr', T, n) | None from a canonical type string."""
    t = t.replace("const ", "").replace("volatile ", "").replace("__restrict", "").replace(" restrict", "").strip()
    if t.endswith("]"):
        i = t.rindex("[")
        # multi-dimensional arrays: the first bracket is the outer dimension
        j = t.index("[")
        n = t[j + 1:t.index("]", j)]
        inner = (t[:j] + t[t.index("]", j) + 1:]).strip()
        return ("arr", _parse_type(inner), int(n) if n.isdigit() else None)
    if t.endswith("*"):
        return ("ptr", _parse_type(t[:-1].strip()))
    if t in _INT_TYPES:
        return ("int",) + _INT_TYPES[t]
    if t.startswith("struct "):
        t = t[7:]
    return ("struct", t)


class Limbs:
    def __init__(self, prog, input_ub):
        """input_ub(key) -> upper bound of the memory cell `key` when it is read before being written (None: not an input)."""
        self.prog = prog
        self.input_ub = input_ub
        self.atoms = []                 # id -> dict(kind, ub, F, M, desc, loc)
        self.mem = {}                   # key -> Val
        self.inputs = {}                # key -> atom id
        self.split_memo = {}
        self.alias_memo = {}
        self.quot_prov = {}             # form of a quotient -> (F, ub F, M) it is the quotient of
        self.small = []                 # values known to lie in [0, ub]: candidates for remainders
        self.small_seen = set()
        self.lo_prov = {}
        self.undecided = []
        self.wraps_proved = 0           # places where the top could be lost and the bounds exclude it
        self.relaxed = 0                # ... of which by the relaxation of the forms
        self.depth = 0
        self.loc = ""
        self.calls = []                 # (callee, [argument Vals or keys]) for calls the client wants to see
        self.opaque = {}                # callee name -> upper bound of its result (predicates kept symbolic)
        self.stop_at = None             # callee name at which interpretation stops (client inspects state there)
        self.stopped = None

    # -------------------------------------------------------------- atoms
    def new_atom(self, kind_, ub, **kw):
        self.atoms.append(dict(kind=kind_, ub=ub, loc=self.loc, target=getattr(self, "cur_target", None), **kw))
        return len(self.atoms) - 1

    def unknown(self, ub, why):
        self.undecided.append("%s: %s" % (self.loc, why))
        return Val(patom(self.new_atom("unk", ub, desc=why)), ub)

    def bit_atom(self, v):
        """An atom standing for a value known to be 0 or 1 (alias of its form; expanded before splits and in residuals)."""
        if len(v.p) == 1:
            (m, c), = v.p.items()
            if c == 1 and len(m) == 1:
                return m[0]
        k = pkey(v.p)
        a = self.alias_memo.get(k)
        if a is None:
            a = self.new_atom("alias", 1, F=v.p, desc="bit")
            self.alias_memo[k] = a
        return a

    def expand(self, p):
        """Replace alias atoms by the forms they stand for."""
        while True:
            al = {a for m in p for a in m if self.atoms[a]["kind"] == "alias"}
            if not al:
                return p
            a = max(al)
            F = self.atoms[a]["F"]
            R = {}
            for m, c in p.items():
                if a not in m:
                    R = padd(R, {m: c})
                    continue
                rest = list(m)
                rest.remove(a)
                R = padd(R, pmul({tuple(rest): c}, F))
            p = R

    def is_bits(self, m):
        return bool(m) and all(self.atoms[a]["ub"] <= 1 for a in m)

    def reduce(self, p):
        """b^2 = b for atoms with values in {0, 1}."""
        out = {}
        for m, c in p.items():
            if len(set(m)) != len(m):
                seen, mm = set(), []
                for a in m:
                    if self.atoms[a]["ub"] <= 1 and a in seen:
                        continue
                    seen.add(a)
                    mm.append(a)
                m = tuple(mm)
            v = out.get(m, 0) + c
            if v:
                out[m] = v
            else:
                out.pop(m, None)
        return out

    def mkmask(self, beta, w):
        beta = self.reduce(beta)
        return Val(pscale(beta, (1 << w) - 1), (1 << w) - 1 if beta else 0, mask=(w, beta))

    @staticmethod
    def one_minus(beta):
        return padd(pconst(1), beta, -1)

    def poly_ub(self, p):
        """Interval bound of a polynomial: positive terms at the atoms' upper bounds, negative terms dropped."""
        t = 0
        for m, c in p.items():
            if c > 0:
                v = c
                for a in m:
                    v *= self.atoms[a]["ub"]
                t += v
        return t

    def relax_ub(self, p):
        """Upper bound of the value of p from the definitions of the quotient atoms (module docstring)."""
        P = {m: Fraction(c) for m, c in self.expand(p).items()}
        guard = 0
        while True:
            qs = {a for m in P for a in m if self.atoms[a]["kind"] == "q"}
            if not qs:
                break
            a = max(qs)
            info = self.atoms[a]
            F, M = info["F"], info["M"]
            up = {m: Fraction(c, M) for m, c in F.items()}
            lo = padd(up, {(): Fraction(M - 1, M)}, -1)
            R = {}
            for m, c in P.items():
                if a not in m:
                    v = R.get(m, 0) + c
                    if v:
                        R[m] = v
                    else:
                        R.pop(m, None)
                    continue
                rest = list(m)
                rest.remove(a)
                sub = up if c > 0 else lo
                for m2, c2 in sub.items():
                    mm = tuple(sorted(tuple(rest) + m2))
                    v = R.get(mm, 0) + c * c2
                    if v:
                        R[mm] = v
                    else:
                        R.pop(mm, None)
            P = R
            guard += 1
            if guard > 20000:
                return None
        t = Fraction(0)
        for m, c in P.items():
            if c > 0:
                v = c
                for a in m:
                    v *= self.atoms[a]["ub"]
                t += v
        return int(t)          # the value is an integer: floor of the rational bound

    # -------------------------------------------------------------- quotient / remainder
    def split(self, v, M, why):
        """(remainder, quotient) of v by M as Vals; floor(floor(F / M1) / M) is floor(F / (M1 M)): one form per quantity."""
        if v.ub >= M and M > 1 and v.p:
            prov = self.quot_prov.get(pkey(v.p))
            if prov is not None:
                F, Fub, M1 = prov
                _lo, qq = self.split(Val(F, Fub), M1 * M, why)
                return Val(padd(v.p, pscale(qq.p, M), -1), min(M - 1, v.ub)), qq
        lo, q = self._split(v, M, why)
        if M > 1 and q.p and v.p and set(q.p) - {()} and pkey(q.p) != pkey(v.p):
            self.quot_prov.setdefault(pkey(q.p), (v.p, v.ub, M))
        return lo, q

    def _split(self, v, M, why):
        if v.ub < M:
            return v, ZERO
        if M == 1:
            return ZERO, v
        if set(v.p) <= {()}:
            c = v.p.get((), 0)
            return Val(pconst(c % M), c % M), Val(pconst(c // M), c // M)
        if len(v.p) == 1:
            (m, c), = v.p.items()
            if c > 0 and self.is_bits(m):
                # b C for a value b in {0, 1}: quotient and remainder are b (C div M) and b (C mod M)
                return Val({m: c % M} if c % M else {}, c % M), Val({m: c // M} if c // M else {}, c // M)
        if any(self.atoms[a]["kind"] == "alias" for m in v.p for a in m):
            v = Val(self.expand(v.p), v.ub, v.add)
        # common power of two of the form and the modulus: floor(g F' / g M') = floor(F' / M'), remainder g (F' mod M')
        # (the remainder of an even form by 2^w is even: th + th <= 2^w - 2; the top of mid << 32 is the top of mid)
        g = M
        for c in v.p.values():
            g = min(g, c & -c)
        if g > 1:
            if M // g == 1:
                return ZERO, Val({m: c // g for m, c in v.p.items()}, v.ub // g)
            lo, q = self.split(Val({m: c // g for m, c in v.p.items()}, v.ub // g), M // g, why)
            return Val(pscale(lo.p, g), lo.ub * g), q
        key = pkey(v.p)
        prov = self.lo_prov.get(key)
        if prov is not None:
            F0, ub0, M0, q0 = prov
            if M0 == M:
                return Val(v.p, min(v.ub, M - 1)), ZERO
            if M0 % M == 0:
                # v = F0 mod M0 and M | M0: v mod M = F0 mod M, floor(v / M) = floor(F0 / M) - (M0 / M) floor(F0 / M0)
                lo, q = self.split(Val(F0, ub0), M, why)
                hi = padd(q.p, pscale(q0, M0 // M), -1)
                return lo, Val(hi, min(v.ub // M, q.ub))
        # F = M H + V for a value V already known to lie in [0, M): quotient H, remainder V, no new atom
        # (the low word of a two-word product is (mid mod 2^32) 2^32 + (ll mod 2^32): its top half *is* mid mod 2^32)
        for (vp, vub) in reversed(self.small):
            if vub < M:
                d = padd(v.p, vp, -1)
                if all(c % M == 0 for c in d.values()):
                    return Val(vp, vub), Val({m: c // M for m, c in d.items()}, v.ub // M)
        rb = self.relax_ub(v.p)
        if rb is not None and rb < M:
            self.relaxed += 1
            self.wraps_proved += 1
            return Val(v.p, min(v.ub, rb), v.add), ZERO
        memo = (key, M)
        a = self.split_memo.get(memo)
        ubq = (min(v.ub, rb) if rb is not None else v.ub) // M
        if a is None:
            a = self.new_atom("q", ubq, F=v.p, M=M, Fub=v.ub, desc=why)
            self.split_memo[memo] = a
        qp = patom(a)
        lo = Val(padd(v.p, pscale(qp, M), -1), min(M - 1, v.ub))
        self.lo_prov[pkey(lo.p)] = (v.p, v.ub, M, qp)
        self.note_small(lo)
        return lo, Val(qp, ubq)

    def note_small(self, v):
        if v.p and v.ub < (1 << 64):
            k = pkey(v.p)
            if k not in self.small_seen:
                self.small_seen.add(k)
                self.small.append((v.p, v.ub))

    def fit(self, v, bits, why):
        """Value after conversion to an unsigned type of `bits` bits."""
        if v.neg is not None:
            return self.mkmask(v.neg, bits)
        pending = v.add is not None and v.add[0] is None
        if v.ub < (1 << bits):
            self.wraps_proved += 1
            return Val(v.p, v.ub, (1 << bits, v.add[1], {})) if pending else v
        lo, q = self.split(v, 1 << bits, why)
        return Val(lo.p, lo.ub, (1 << bits, v.add[1], q.p) if pending else None)

    # -------------------------------------------------------------- types and lvalues
    def ctype(self, e, fr):
        e = strip(e)
        k = kind(e)
        if k == "var":
            v = fr.f.vars.get(e[1])
            if v is None:
                return None
            return _parse_type(v.get("canon") or v["type"])
        if k == "deref":
            t = self.ctype(e[1], fr)
            return t[1] if t and t[0] in ("ptr", "arr") else None
        if k == "decay":
            t = self.ctype(e[1], fr)
            return ("ptr", t[1]) if t and t[0] == "arr" else t
        if k == "index":
            t = self.ctype(e[1], fr)
            return t[1] if t and t[0] in ("ptr", "arr") else None
        if k == "member":
            t = self.ctype(e[1], fr)
            if not t or t[0] != "struct":
                return None
            st = self.prog.structs.get(t[1]) or self.prog.structs.get("struct " + t[1])
            fl = next((x for x in (st or {}).get("fields", []) if x["name"] == e[2]), None)
            return _parse_type(fl.get("canon") or fl["type"]) if fl else None
        if k == "addr":
            t = self.ctype(e[1], fr)
            return ("ptr", t) if t else None
        return None

    def lv(self, e, fr):
        """Memory key of an lvalue expression."""
        e = strip(e)
        k = kind(e)
        if k == "var":
            if e[1] in fr.ptr:
                raise Undecided("pointer %s used as a value" % e[1])
            return fr.prefix + e[1]
        if k == "deref":
            b, arr = self.ptrval(e[1], fr)
            return b + "[0]" if arr else b
        if k == "member":
            b = strip(e[1])
            return self.lv(b, fr) + "." + e[2]
        if k == "index":
            i = int_val(e[2])
            if i is None:
                iv = self.ev(e[2], fr)
                if set(iv.p) - {()}:
                    raise Undecided("variable index %s" % show(e))
                i = iv.p.get((), 0)
            b, arr = self.ptrval(e[1], fr)
            if not arr and i != 0:
                raise Undecided("index into a non-array object %s" % show(e))
            return "%s[%d]" % (b, i) if arr else b
        raise Undecided("lvalue %s" % show(e))

    def ptrval(self, e, fr):
        """(base key, is_array) a pointer expression points to."""
        e = strip(e)
        k = kind(e)
        if k == "var":
            if e[1] in fr.ptr:
                return fr.ptr[e[1]]
            t = self.ctype(e, fr)
            if t and t[0] == "arr":
                return fr.prefix + e[1], True
            if fr.prefix == "":
                return e[1], True            # pointer parameter of the root function: a[i] is the cell "a[i]"
            raise Undecided("unbound pointer %s" % e[1])
        if k == "decay":
            return self.lv(e[1], fr), True
        if k == "addr":
            return self.lv(e[1], fr), False
        if k == "bin" and e[1] == "+" and int_val(e[3]) is not None:
            raise Undecided("pointer arithmetic %s" % show(e))
        raise Undecided("pointer expression %s" % show(e))

    def bits_of(self, e, fr):
        t = self.ctype(e, fr)
        if not t or t[0] != "int":
            raise Undecided("type of %s" % show(e))
        return t[1] - (1 if t[2] else 0)      # a signed object holds the non-negative values below 2^(w-1) exactly

    def load(self, e, fr):
        key = self.lv(e, fr)
        if key in self.mem:
            return self.mem[key]
        if key in self.inputs:
            a = self.inputs[key]
            return Val(patom(a), self.atoms[a]["ub"])
        ub = self.input_ub(key) if not fr.prefix or not key.startswith(fr.prefix) else None
        if ub is None:
            v = self.unknown((1 << self.bits_of(e, fr)) - 1, "read of %s before any write" % key)
            self.mem[key] = v
            return v
        a = self.new_atom("in", ub, desc=key)
        self.inputs[key] = a
        return Val(patom(a), ub)

    def store(self, e, v, fr):
        key = self.lv(e, fr)
        bits = self.bits_of(e, fr)
        t = self.ctype(e, fr)
        if t[2] and v.neg is not None:
            self.mem[key] = v
            return
        if t[2] and v.ub >= (1 << bits):
            raise Undecided("value may not fit the signed object %s" % key)
        self.mem[key] = self.fit(v, bits, "store to %s (%d bits)" % (key, bits))
        self.note_small(self.mem[key])

    # -------------------------------------------------------------- expressions
    def ev(self, e, fr):
        e0 = e
        k = kind(e)
        if k == "bool":
            return self.ev(e[1], fr)
        if k == "narrow":
            v = self.ev(e[3], fr)
            if v.neg is None and v.ub < (1 << e[2]):
                return v                                   # the value fits: nothing changes (select masks stay masks)
            return self.fit(Val(v.p, v.ub, neg=v.neg), e[2], "conversion to %d bits in %s" % (e[2], show(e0)[:60]))
        if k == "int":
            c = int(e[1])
            if c < 0:
                raise Undecided("negative constant")
            return Val(pconst(c), c)
        if k in ("var", "index", "member", "deref"):
            if k == "var" and e[1] in fr.ptr:
                raise Undecided("pointer as value")
            return self.load(e, fr)
        if k == "assign":
            return self.assign(e, fr)
        if k == "call":
            return self.call(e, fr)
        if k == "cond":
            c = self.ev(e[1], fr)
            if not c.p:
                return self.ev(e[3], fr)
            if set(c.p) == {()} and c.p[()] != 0:
                return self.ev(e[2], fr)
            raise Undecided("data-dependent selection %s" % show(e)[:60])
        if k == "un":
            if e[1] == "-" and len(e) > 4 and e[3]:
                x = self.ev(e[2], fr)
                if x.ub <= 1:
                    if e[4]:
                        return Val({}, 0, neg=x.p)          # -(int)b: a mask once it reaches an unsigned type
                    # -b at w bits for b in {0, 1}: b (2^w - 1)
                    return self.mkmask(x.p, e[3])
            if e[1] == "~" and len(e) > 4 and e[3] and not e[4]:
                x = self.ev(e[2], fr)
                w = e[3]
                if x.mask is not None and x.mask[0] == w:
                    return self.mkmask(self.one_minus(x.mask[1]), w)
                if x.ub < (1 << w):
                    return Val(padd(pconst((1 << w) - 1), x.p, -1), (1 << w) - 1)      # ~x = 2^w - 1 - x
            raise Undecided("unary %s" % e[1])
        if k == "bin":
            return self.binop(e, fr)
        raise Undecided("expression %s" % show(e)[:60])

    def binop(self, e, fr):
        op = e[1]
        bits, signed = (e[4], e[5]) if len(e) > 5 else (0, 0)
        if signed and op not in ("<", ">", "<=", ">=", "==", "!=", "&&", "||"):
            # signed arithmetic on values promoted from narrower unsigned types is exact as long as it stays small
            pass
        if op in ("<", ">", "==", "!=", "<=", ">="):
            return self.compare(e, fr)
        if op in ("&&", "||"):
            L = self.ev(e[2], fr)
            if set(L.p) <= {()}:
                lv = bool(L.p.get((), 0))
                if (op == "&&") != lv:
                    return Val(pconst(int(lv)), int(lv))          # short circuit
                R = self.ev(e[3], fr)
                if set(R.p) <= {()}:
                    rv = int(bool(R.p.get((), 0)))
                    return Val(pconst(rv), rv)
            return self.unknown(1, "logical %s" % show(e)[:60])
        if op == "&":
            # k & (x == 0) after x = (x' + k) mod M with k in {0, 1}: the quotient of that addition
            for (ke, ze) in ((e[2], e[3]), (e[3], e[2])):
                z = strip(ze)
                if kind(z) == "bin" and z[1] == "==" and int_val(z[3]) == 0:
                    K = self.ev(ke, fr)
                    X = self.ev(z[2], fr)
                    if K.ub <= 1 and X.add is not None and X.add[0] is not None and any(pkey(K.p) == pkey(a) for a in X.add[1]):
                        return Val(X.add[2], 1 if X.add[2] else 0)
        L = self.ev(e[2], fr)
        R = self.ev(e[3], fr)
        if not bits:
            raise Undecided("untyped operation %s" % show(e)[:60])
        if not signed:
            L = self.fit(L, bits, "operand") if L.neg is not None else L
            R = self.fit(R, bits, "operand") if R.neg is not None else R
        allones = (1 << bits) - 1
        for (x, y) in ((L, R), (R, L)):
            yc = y.p.get((), None) if set(y.p) <= {()} else None
            if x.neg is not None:
                continue
            if op == "*" and yc is not None and yc > 1 and yc & (yc + 1) == 0 and yc <= allones and x.ub <= 1 and not signed:
                return self.mkmask(x.p, yc.bit_length())              # 0xFF..F * b
            if op == "+" and yc == allones and x.ub <= 1 and not signed:
                return self.mkmask(self.one_minus(x.p), bits)         # b + 0xFF..F = (1 - b) 0xFF..F  (mod 2^w)
            if op == "-" and x is L and yc == 1 and x.ub <= 1:
                if signed:
                    return Val({}, 0, neg=self.one_minus(x.p))       # b - 1 = -(1 - b)
                return self.mkmask(self.one_minus(x.p), bits)
            if op == "&" and y.mask is not None and x.mask is None:
                xl = x
                if x.ub > (1 << y.mask[0]) - 1:
                    xl, _q = self.split(x, 1 << y.mask[0], "%s at %d bits" % (show(e)[:70], bits))       # a narrower mask also cuts the value
                return Val(self.reduce(pmul(y.mask[1], xl.p)), xl.ub)   # x & (beta 0xFF..F) = beta x
            if op == "^" and y.mask is not None and x.ub <= (1 << y.mask[0]) - 1 and x.mask is None:
                w, beta = y.mask                                      # x ^ (beta 0xFF..F) = x + beta (2^w - 1 - 2 x)
                return Val(self.reduce(padd(x.p, pmul(beta, padd(pconst((1 << w) - 1), pscale(x.p, 2), -1)))), (1 << w) - 1)
        if op == "&" and L.mask is not None and R.mask is not None and L.mask[0] == R.mask[0]:
            return self.mkmask(pmul(L.mask[1], R.mask[1]), L.mask[0])
        if op == "|" and L.p and R.p and not self.reduce(pmul(L.p, R.p)):
            return Val(padd(L.p, R.p), max(L.ub, R.ub))              # at most one of the two is non-zero
        M = 1 << (bits - (1 if signed else 0))
        why = "%s at %d bits" % (show(e)[:70], bits)
        if set(L.p) <= {()} and set(R.p) <= {()} and L.neg is None and R.neg is None and op in ("&", "|", "^", "-") and not signed:
            a_, b_ = L.p.get((), 0), R.p.get((), 0)
            c_ = {"&": a_ & b_, "|": a_ | b_, "^": a_ ^ b_, "-": (a_ - b_) & ((1 << bits) - 1)}[op]
            return Val(pconst(c_), c_)                          # constants fold (unsigned subtraction wraps)
        if op == "+":
            v = Val(padd(L.p, R.p), L.ub + R.ub, (None, [L.p, R.p], None) if L.ub < M and R.ub < M else None)
            return self.fit(v, bits, why) if not signed else self._signed_fit(v, M, why)
        if op == "*":
            v = Val(pmul(L.p, R.p), L.ub * R.ub)
            for (x, y) in ((L, R), (R, L)):
                if set(y.p) == {()} and y.p[()] == 2 and x.ub < M:
                    v.add = (None, [x.p, x.p], None)          # 2 x is x + x: `r < x` after r = 2 x mod 2^w is its carry
            return self.fit(v, bits, why) if not signed else self._signed_fit(v, M, why)
        if op == "<<":
            s = self._const(R)
            v = Val(pscale(L.p, 1 << s), L.ub << s, (None, [L.p, L.p], None) if s == 1 and L.ub < M else None)
            return self.fit(v, bits, why) if not signed else self._signed_fit(v, M, why)
        if op == ">>":
            s = self._const(R)
            if L.mask is not None and not signed and s < L.mask[0]:
                return self.mkmask(L.mask[1], L.mask[0] - s)          # (beta 0xFF..F) >> s is the shorter mask
            if signed and L.ub >= M:
                # arithmetic shift of a two's-complement pattern held in an unsigned object of the same width: as a bit
                # pattern the result is floor(x / 2^s) + sign (2^w - 2^(w-s)), sign = top bit of x
                if L.ub >= (1 << bits) or s >= bits:
                    raise Undecided("signed shift %s" % show(e)[:60])
                lo_, sign = self.split(L, 1 << (bits - 1), "sign bit of %s" % show(e[2])[:40])
                lo2, q = self.split(L, 1 << s, why)
                b = self.bit_atom(sign)
                return Val(padd(q.p, {(b,): (1 << bits) - (1 << (bits - s))}), (1 << bits) - 1)
            lo, q = self.split(L, 1 << s, why)
            return q
        if op == "&":
            for (x, y) in ((L, R), (R, L)):
                if set(y.p) <= {()} and len(x.p) == 1:
                    (m, c), = x.p.items()
                    if c > 0 and self.is_bits(m):
                        kc = c & y.p.get((), 0)            # K & (b C) = b (K & C) for b in {0, 1}
                        return Val({m: kc} if kc else {}, kc)
            for (x, y) in ((L, R), (R, L)):
                if set(y.p) <= {()}:
                    c = y.p.get((), 0)
                    if c & (c + 1) == 0:
                        lo, q = self.split(x, c + 1, why)
                        return lo
            # carry & (x == 0) idiom and 0/1 conjunctions are handled in compare(); everything else is unknown
            if L.ub <= 1 and R.ub <= 1:
                return self.unknown(1, "conjunction %s" % show(e)[:60])
            raise Undecided("mask %s" % show(e)[:60])
        if op == "|":
            for (x, y) in ((L, R), (R, L)):
                # x is a multiple of 2^k as a polynomial and y < 2^k: the bit ranges are disjoint
                kbits = y.ub.bit_length()
                if x.p and all(c % (1 << kbits) == 0 for c in x.p.values()):
                    return Val(padd(x.p, y.p), x.ub + y.ub)
            if not L.p:
                return R
            if not R.p:
                return L
            raise Undecided("or %s" % show(e)[:60])
        if op in ("/", "%") and set(R.p) == {()}:
            d = R.p[()]
            if d > 0 and d & (d - 1) == 0:
                lo, q = self.split(L, d, why)
                return q if op == "/" else lo
            if set(L.p) <= {()}:
                c = L.p.get((), 0)
                return Val(pconst(c // d), c // d) if op == "/" else Val(pconst(c % d), c % d)
            raise Undecided("division by %d" % d)
        if op == "-":
            if set(L.p) <= {()} and set(R.p) <= {()} and L.p.get((), 0) >= R.p.get((), 0):
                c = L.p.get((), 0) - R.p.get((), 0)
                return Val(pconst(c), c)
            if set(L.p) <= {()} and L.p.get((), 0) >= R.ub and not signed:
                # C - x with x <= C: exact, no wrap
                return Val(padd(L.p, R.p, -1), L.p.get((), 0))
            raise Undecided("subtraction %s" % show(e)[:60])
        raise Undecided("operator %s" % op)

    def _signed_fit(self, v, M, why):
        if v.ub < M:
            return v
        raise Undecided("signed overflow possible in %s" % why)

    def _const(self, v):
        if set(v.p) <= {()}:
            return v.p.get((), 0)
        raise Undecided("variable shift amount")

    def compare(self, e, fr):
        op = e[1]
        # K & (x == 0) is handled by the caller of `&` — here: plain comparisons
        L = self.ev(e[2], fr)
        R = self.ev(e[3], fr)
        if op == "<" and L.add is not None and L.add[0] is not None:
            M, addends, q = L.add
            bits = e[4] if len(e) > 5 else 0
            if bits and (1 << bits) == M and any(pkey(R.p) == pkey(a) for a in addends):
                return Val(q, 1 if q else 0)
        for (x, y) in ((L, R), (R, L)):
            if x.ub <= 1 and x.neg is None and set(y.p) <= {()} and op in ("==", "!="):
                c = y.p.get((), 0)
                if c in (0, 1):
                    same = (op == "==") == (c == 1)
                    return Val(x.p if same else self.reduce(self.one_minus(x.p)), 1)
        # decided by the bounds?
        if set(L.p) <= {()} and set(R.p) <= {()}:
            a, b = L.p.get((), 0), R.p.get((), 0)
            r = {"<": a < b, ">": a > b, "<=": a <= b, ">=": a >= b, "==": a == b, "!=": a != b}[op]
            return Val(pconst(int(r)), int(r))
        return self.unknown(1, "comparison %s" % show(e)[:60])

    def assign(self, e, fr):
        op = e[1]
        if fr.prefix == "":
            try:
                self.cur_target = self.lv(e[2], fr)
            except Undecided:
                self.cur_target = None
        if op == "=":
            v = self.ev(e[3], fr)
        else:
            b = ["bin", op[:-1], e[2], e[3]] + (list(e[4:6]) if len(e) > 5 else [0, 0])
            # K & (x == 0) idiom appears as the right operand of +=; nothing special here
            v = self.ev(b, fr)
        self.store(e[2], v, fr)
        return self.mem[self.lv(e[2], fr)]

    # -------------------------------------------------------------- statements and calls
    def stmt(self, e, fr):
        k = kind(e)
        if k == "decls":
            for d in e[1:]:
                if d[2] is not None:
                    if kind(d[2]) == "init":
                        raise Undecided("aggregate initialiser")
                    self.store(["var", d[1]], self.ev(d[2], fr), fr)
            return
        if k == "return":
            if fr.prefix == "" and not getattr(self, "eval_root_return", False):
                return                     # the root's return value is not part of any specification here
            fr.ret = self.ev(e[1], fr) if e[1] is not None else ZERO
            return
        if k in ("assign", "call"):
            self.ev(e, fr)
            return
        if k in ("var", "int", "member", "index", "deref", "bin", "narrow", "bool", "un", "decay", "addr", "sizeof", "cond", "str"):
            return          # expression statement without effect ((void)x, VERIFY_CHECK / CHECKMEM remnants)
        if k == "stmt":
            return
        raise Undecided("statement %s" % show(e)[:60])

    def run(self, f, fr=None):
        """Interpret a function whose control flow is a single path."""
        fr = fr or Frame(f, "")
        seen = set()
        bid = f.entry if hasattr(f, "entry") else max(f.blocks)
        while bid is not None and bid not in seen:
            seen.add(bid)
            b = f.blocks[bid]
            for el in b.elems:
                if not el.top:
                    continue
                self.loc = el.loc
                self.stmt(el.e, fr)
                if self.stopped is not None:
                    return fr
            succs = [s for s in b.succs if s is not None]
            if b.cond is not None and len(set(succs)) > 1:
                c = self.ev(b.cond, fr)
                if set(c.p) <= {()}:
                    bid = b.succs[0] if c.p.get((), 0) else b.succs[1]
                    continue
                raise Undecided("data-dependent branch %s" % show(b.cond)[:60])
            bid = succs[0] if succs else None
        return fr

    def call(self, e, fr):
        name = e[1] if isinstance(e[1], str) else None
        if name is None:
            raise Undecided("indirect call")
        if name == self.stop_at:
            self.stopped = (e, fr)
            return ZERO
        if name in self.opaque:
            # a predicate the client reasons about by name: a symbol with the state of the object it was applied to
            base, arr = self.ptrval(e[3][0], fr)
            pre = (base + "[0]." if arr else base + ".")
            snap = {k: pkey(v.p) for k, v in self.mem.items() if k.startswith(pre)}
            a = self.new_atom("op", self.opaque[name], desc="%s(%s)" % (name, show(e[3][0])), snap=snap, base=pre)
            return Val(patom(a), self.opaque[name])
        g = self.prog.functions.get(name)
        if g is None or not g.blocks:
            raise Undecided("call of %s (no body)" % name)
        if self.depth > 6:
            raise Undecided("call depth")
        self.depth += 1
        self.ncalls = getattr(self, "ncalls", 0) + 1
        nf = Frame(g, "%s%s#%d." % (fr.prefix, name.replace("secp256k1_", ""), self.ncalls))
        for p, a in zip(g.params, e[3]):
            t = _parse_type(p.get("canon") or p["type"])
            if t[0] == "ptr":
                nf.ptr[p["name"]] = self.ptrval(a, fr)
            elif t[0] == "int":
                v = self.ev(a, fr)
                if t[2]:
                    if v.ub >= (1 << (t[1] - 1)):
                        raise Undecided("signed parameter %s of %s" % (p["name"], name))
                    self.mem[nf.prefix + p["name"]] = v
                else:
                    self.mem[nf.prefix + p["name"]] = self.fit(v, t[1], "argument %s of %s" % (p["name"], name))
            else:
                raise Undecided("parameter %s of %s" % (p["name"], name))
        saved = self.loc
        self.run(g, nf)
        self.loc = saved
        self.depth -= 1
        return nf.ret if nf.ret is not None else ZERO

    # -------------------------------------------------------------- residuals
    def describe(self, m):
        return "*".join(self.atoms[a].get("desc", "?") if self.atoms[a]["kind"] != "q" else "carry#%d" % a for a in m) or "1"

    def residual_report(self, R, modulus=None):
        """Split a residual polynomial into (wrong coefficients on input monomials, surviving quotient atoms, unknowns)."""
        wrong, dropped, unk = [], [], []
        R = self.reduce(self.expand(R))
        for m, c in sorted(R.items()):
            if modulus and c % modulus == 0:
                continue
            kinds = {self.atoms[a]["kind"] for a in m}
            if "unk" in kinds:
                unk.append((m, c))
            elif "q" in kinds:
                dropped.append((m, c))
            else:
                wrong.append((m, c))
        return wrong, dropped, unk
