"""R-SAME — a validity test on an array element guards the use of *that* element.

Instances are discovered on the reviewed tree and frozen (tables/same_elem.json): a call U(.., &A[i], ..) — or U(.., A[i], ..)
for an array of pointers — whose element argument has a non-constant index and is dominated by a branch on
G(&A[i]) with G one of the repository's validity predicates (gej / ge is_infinity, scalar_is_zero) applied to the
structurally identical element expression, with no assignment to the index variables in between.

The rule then requires every call of U on an element of A in that function to still have such a guard on the same
element.  It fires when the test and the use drift apart: the test stays on `&pubs[count]` while the use moves to
`&pubs[count + j]`, or the test is hoisted into a loop that walks a different index range (`pubs[i]`, i < nrings).
"""
from sxlib import *
from core import Obligation, load_table, props_of_function

GUARDS = ("secp256k1_gej_is_infinity", "secp256k1_ge_is_infinity", "secp256k1_scalar_is_zero")


def _elem(a):
    """(array name, index expr) for &A[i] / A[i] with non-constant i, else None."""
    a = strip(a)
    if kind(a) == "addr":
        a = strip(a[1])
        if kind(a) == "var":
            return a[1], None          # a whole local object: &rj
    if kind(a) != "index" or is_int(a[2]):
        return None
    b = strip(a[1])
    if kind(b) == "decay":
        b = strip(b[1])
    if kind(b) != "var":
        return None
    return b[1], a[2]


def _guarded(f, dom, blk, arr, idx, use_idx=None):
    """Is the use in block blk (element index use_idx) preceded on every path by a validity test G(&arr[idx]) of the same object
    — as a branch condition or inside a verdict update such as `ret &= !G(&x)` — with no assignment to the object / its index
    variables between the test and the use?"""
    ivars = vars_in(idx) if idx is not None else {arr}

    def same(e):
        return e and e[0] == arr and ((idx is None and e[1] is None) or (idx is not None and e[1] is not None and repr(strip(e[1])) == repr(strip(idx))))

    def defs_between(bid, lo, hi):
        for el in f.blocks[bid].elems:
            if not el.top or (lo is not None and el.idx <= lo) or (hi is not None and el.idx >= hi):
                continue
            for (n, op, rhs, via) in defs_in_elem(el.e):
                if n in ivars:
                    return True
        return False

    for d in dom.get(blk, ()):
        b = f.blocks[d]
        cands = []      # (element index of the guard or None for the terminator condition, callee, loc)
        for el in b.elems:
            if not el.top or (d == blk and use_idx is not None and el.idx >= use_idx):
                continue
            for c in calls_in(el.e):
                if callee_name(c) in GUARDS and c[3] and same(_elem(c[3][0])):
                    cands.append((el.idx, callee_name(c), c[2]))
        if d != blk and b.cond is not None:
            for c in calls_in(b.cond):
                if callee_name(c) in GUARDS and c[3] and same(_elem(c[3][0])):
                    cands.append((10 ** 9, callee_name(c), b.term["loc"]))
        for (gidx, gname, gloc) in cands:
            if d == blk:
                if not defs_between(blk, gidx, use_idx):
                    return gname, gloc
                continue
            if defs_between(d, gidx if gidx < 10 ** 9 else None, None) and gidx < 10 ** 9:
                continue
            # blocks on a path from the guard to the use that does not pass the guard or the use again
            region = f.reachable_from(d, avoid=frozenset({d, blk}))
            region = {x for x in region if blk in f.reachable_from(x, avoid=frozenset({d})) or blk in f.blocks[x].succs}
            if any(defs_between(r, None, None) for r in region if r != blk):
                continue
            if defs_between(blk, None, use_idx):
                continue
            return gname, gloc
    return None


def scan(prog):
    """[{fn, use, arr, loc, guard or None}] for every call with a variable-index element argument in functions that test elements."""
    out = []
    for f in sorted(prog.functions.values(), key=lambda x: x.name):
        if not f.blocks or not f.file.startswith("src/") or f.file.endswith("tests_impl.h") or \
                f.file.startswith(("src/bench", "src/tests", "src/testrand", "src/unit_test", "src/ctime", "src/precompute")):
            continue
        if not any(callee_name(c) in GUARDS and c[3] and _elem(c[3][0]) for el, c in f.all_calls()):
            continue
        dom = f.dominators()
        for b in f.blocks.values():
            for el in b.elems:
                e = strip(el.e)
                if kind(e) != "call" or callee_name(e) in GUARDS or not callee_name(e):
                    continue
                for a in e[3]:
                    em = _elem(a)
                    if not em:
                        continue
                    g = _guarded(f, dom, b.id, em[0], em[1], el.idx)
                    out.append({"fn": f.name, "use": callee_name(e), "arr": em[0], "idx": show(em[1]) if em[1] is not None else "", "loc": e[2], "guard": g, "file": f.file})
    return out


def obligations(prog):
    tab = load_table("same_elem.json")["instances"]
    sites = scan(prog)
    obs = []
    for inst in tab:
        fn, use, arr, guard = inst["function"], inst["use"], inst["array"], inst["guard"]
        f = prog.functions.get(fn)
        if f is None:
            continue
        ss = [s for s in sites if s["fn"] == fn and s["use"] == use and s["arr"] == arr]
        if not ss:
            continue       # the use moved into a helper / changed shape: the floor decides
        bad = [s for s in ss if not s["guard"] or s["guard"][0] != guard]
        text = "in %s every element of %s handed to %s is first tested with %s on the same element" % (fn, arr, use, guard)
        if bad:
            s = bad[0]
            obs.append(Obligation("R-SAME", "R-SAME:%s:%s:%s" % (fn, use, arr), s["loc"], fn, text, False,
                                  "%s(.. %s[%s] ..) at %s has no dominating %s test of %s[%s]" % (use, arr, s["idx"], s["loc"], guard, arr, s["idx"]),
                                  props=props_of_function(f) | {"C07"}))
        else:
            obs.append(Obligation("R-SAME", "R-SAME:%s:%s:%s" % (fn, use, arr), ss[0]["loc"], fn, text, True,
                                  "%d call(s), each dominated by %s on the same element (e.g. at %s)" % (len(ss), guard, ss[0]["guard"][1]),
                                  props=props_of_function(f) | {"C07"}))
    return obs, {"instances": len(tab)}


if __name__ == "__main__":
    import sys
    import json
    prog = program("K0")
    sites = scan(prog)
    if len(sys.argv) > 1 and sys.argv[1] == "regen":
        inst = {}
        for s in sites:
            k = (s["fn"], s["use"], s["arr"])
            inst.setdefault(k, []).append(s)
        arm = [{"function": k[0], "use": k[1], "array": k[2], "guard": v[0]["guard"][0]} for k, v in sorted(inst.items())
               if all(x["guard"] for x in v) and len({x["guard"][0] for x in v}) == 1]
        json.dump({"_comment": "R-SAME: (function, use callee, array) whose every element use is dominated by a validity test of the same element on the reviewed "
                               "tree (python3 rules/r_same.py regen).", "instances": arm}, open(os.path.join(VERIF, "tables", "same_elem.json"), "w"), indent=0)
        print("armed", len(arm), "instances")
    for s in sites:
        print("GUARDED " if s["guard"] else "unguarded", s["fn"], s["use"], "%s[%s]" % (s["arr"], s["idx"]), s["loc"], s["guard"] or "")
