"""R-CURSOR — reads through a (cursor, end) pointer pair stay inside the buffer (the DER reader of C03 / C07).

The DER parser walks `*sigp` towards `sigend`.  For the three functions that do so the rule runs a forward dataflow over
clang's CFG with a small relational domain for rem = end - cursor:

    facts   rem >= c            and   rem >= v + c     (v an integer variable of the function)
    ranges  lo <= v <= hi       for integer variables (from `(v & 0x80) == 0`, `v == K`, `v > K`, `w = v & 0x7F`, ...)

Guards add facts on the edge they protect (`cur >= end -> return` gives rem >= 1; `n > (size_t)(end - cur) -> return`
gives rem >= n; `n != (size_t)(end - cur) -> return` gives rem >= n), `cur++` / `cur += n` shift them, `n--` shifts the
facts about n, calls that receive the cursor drop everything.  Every read `cur[k]` needs rem >= k + 1, every
`memcpy(.., cur, n)` needs rem >= n, and every advance by n needs rem >= n (so the cursor never passes the end, which the
equality tests `cur == end` rely on).

Armed semantics as for R-CAP: the sites the engine proves on the reviewed tree are frozen per (function, kind) in
tables/cursor_sites.json; a group with fewer proved and more unproved sites is a violation.
"""
from sxlib import *
from core import Obligation, load_table, armed_group_obligations

# (function, how the cursor is written, end variable)
CURSORS = [
    ("secp256k1_der_read_len", ("deref", "sigp"), "sigend", {"C03", "C07"}),
    ("secp256k1_der_parse_integer", ("deref", "sig"), "sigend", {"C03", "C07"}),
    ("secp256k1_ecdsa_sig_parse", ("var", "sig"), "sigend", {"C03", "C07"}),
]


class Cur:
    def __init__(self, prog, f, cur, end):
        self.prog, self.f, self.cur, self.end = prog, f, cur, end
        self.sites = []
        self.seen = set()
        self.solve()

    # ---- expression shapes
    def is_cur(self, e):
        e = strip(e)
        if self.cur[0] == "var":
            return kind(e) == "var" and e[1] == self.cur[1]
        return kind(e) == "deref" and kind(strip(e[1])) == "var" and strip(e[1])[1] == self.cur[1]

    def is_end(self, e):
        e = strip(e)
        return kind(e) == "var" and e[1] == self.end

    def is_rem(self, e):
        e = strip(e)
        return kind(e) == "bin" and e[1] == "-" and self.is_end(e[2]) and self.is_cur(e[3])

    def reads(self, e):
        """[(offset or None, bytes expr or 1, node)] for reads through the cursor inside e (not counting &cur[k])."""
        out = []

        def visit(x, under_addr=False):
            x0 = x
            x = strip(x)
            k = kind(x)
            if k == "addr":
                visit(x[1], True)
                return
            if k == "deref":
                inner = strip(x[1])
                if self.is_cur(inner):
                    if not under_addr:
                        out.append((0, 1, x))
                    return
                if kind(inner) == "incdec" and self.is_cur(inner[3]):
                    # *(cur++) reads offset 0 (post) or 1 (pre)
                    out.append((0 if not inner[2] else 1, 1, x))
                    return
                if kind(inner) == "bin" and inner[1] == "+" and self.is_cur(inner[2]) and is_int(inner[3]):
                    out.append((int_val(inner[3]), 1, x))
                    return
            if k == "index" and self.is_cur(x[1]):
                off = int_val(x[2]) if is_int(x[2]) else None
                if not under_addr:
                    out.append((off, 1, x))
                visit(x[2])
                return
            if k == "call" and callee_name(x) in ("memcpy", "memcmp", "secp256k1_memcmp_var") and len(x[3]) >= 3:
                for ai in (0, 1):
                    if self.is_cur(x[3][ai]) and not (callee_name(x) == "memcpy" and ai == 0):
                        out.append(("n", x[3][2], x))
            for c in children(x):
                visit(c)
        visit(e)
        return out

    def advances(self, e):
        """[(amount expr | int)] by which e moves the cursor."""
        out = []
        for x in walk(e):
            if kind(x) == "incdec" and self.is_cur(x[3]):
                out.append(1 if x[1] == "++" else -1)
            elif kind(x) == "assign" and self.is_cur(x[2]):
                if x[1] == "+=":
                    out.append(x[3])
                else:
                    out.append(None)     # arbitrary reassignment
        return out

    # ---- state helpers: state = (facts {var|None: c}, ranges {var: (lo, hi)})
    def lb(self, st, v):
        return st[1].get(v, (0, None))[0]

    def rem_lb(self, st):
        best = 0
        for v, c in st[0].items():
            val = c if v is None else self.lb(st, v) + c
            best = max(best, val)
        return best

    def rem_ge_expr(self, st, e):
        e = strip(e)
        if is_int(e):
            return self.rem_lb(st) >= int_val(e)
        if kind(e) == "var":
            c = st[0].get(e[1])
            if c is not None and c >= 0:
                return True
            hi = st[1].get(e[1], (0, None))[1]
            return hi is not None and self.rem_lb(st) >= hi
        return False

    def apply_elem(self, st, el):
        facts, rng = dict(st[0]), dict(st[1])
        e = el.e
        st = (facts, rng)
        # 1. reads, before the side effects of this element
        for (off, n, node) in self.reads(e):
            key = (el.loc, repr(node))
            if off == "n":
                ok = self.rem_ge_expr(st, n)
                # `if (n) memcpy(.., cur, n)`: n bytes
                desc = "%s reads %s bytes at the cursor" % (callee_name(node), show(n))
                kindk = "copy"
            elif off is None:
                ok = False
                desc = "`%s`: variable offset" % show(node)
                kindk = "read"
            else:
                ok = self.rem_lb(st) >= off + 1
                desc = "`%s` reads offset %d" % (show(node), off)
                kindk = "read"
            self.note(key, el, kindk, ok, desc + ("; end - cursor >= %d here" % self.rem_lb(st)))
        # 2. cursor movement
        for a in self.advances(e):
            key = (el.loc, "adv", repr(a))
            if a is None or a == -1:
                self.note(key, el, "advance", False, "cursor reassigned / moved backwards")
                facts.clear()
                continue
            if a == 1:
                ok = self.rem_lb(st) >= 1
                self.note(key, el, "advance", ok, "cursor advances by 1; end - cursor >= %d here" % self.rem_lb(st))
                for v in list(facts):
                    facts[v] -= 1
            else:
                ok = self.rem_ge_expr(st, a)
                self.note(key, el, "advance", ok, "cursor advances by %s" % show(a))
                av = strip(a)
                if kind(av) == "var" and av[1] in facts:
                    c = facts[av[1]]
                    facts.clear()
                    if c > 0:
                        facts[None] = c          # rem >= n + c, cursor += n  =>  rem >= c
                elif is_int(av):
                    for v in list(facts):
                        facts[v] -= int_val(av)
                else:
                    facts.clear()
        # 3. calls that receive the cursor by address / the pointer-to-cursor: they move it by an unknown amount
        for c in calls_in(e):
            if callee_name(c) in ("memcpy", "memcmp", "secp256k1_memcmp_var"):
                continue
            for a in c[3]:
                a = strip(a)
                if (self.cur[0] == "deref" and kind(a) == "var" and a[1] == self.cur[1]) or \
                        (kind(a) == "addr" and self.is_cur(a[1])):
                    facts.clear()
        # 4. integer variable updates
        for (v, op, rhs, via) in defs_in_elem(e):
            if self.cur[0] == "var" and v == self.cur[1]:
                continue
            if via == "incdec":
                # find direction
                d = 0
                for x in walk(e):
                    if kind(x) == "incdec" and kind(strip(x[3])) == "var" and strip(x[3])[1] == v:
                        d = 1 if x[1] == "++" else -1
                if v in facts:
                    facts[v] -= d                 # rem >= v_old + c = v_new - d + c
                if v in rng:
                    lo, hi = rng[v]
                    rng[v] = (max(0, lo + d), None if hi is None else hi + d)
                continue
            facts.pop(v, None)
            rng.pop(v, None)
            if via in ("assign", "decl") and op == "=" and rhs is not None:
                r = strip(rhs)
                if is_int(r):
                    rng[v] = (int_val(r), int_val(r))
                elif kind(r) == "bin" and r[1] == "&" and kind(strip(r[2])) == "var" and is_int(r[3]):
                    src = rng.get(strip(r[2])[1])
                    m = int_val(r[3])
                    if src and src[1] is not None and m == 0x7F and src[0] >= 0x80 and src[1] <= 0xFF:
                        rng[v] = (src[0] - 0x80, src[1] - 0x80)
                    else:
                        rng[v] = (0, m)
                elif kind(r) == "var" and strip(r)[1] in rng:
                    rng[v] = rng[strip(r)[1]]
        # keep the domain finite: `rem >= c` with c <= 0 says nothing, and a variable fact that drifted far below is useless
        for v in list(facts):
            if (v is None and facts[v] <= 0) or facts[v] < -64:
                del facts[v]
        for v in list(rng):
            lo, hi = rng[v]
            if hi is not None and hi < 0:
                del rng[v]
        return (facts, rng)

    def note(self, key, el, kindk, ok, detail):
        prev = self.sites_by.get(key)
        if prev is None:
            self.sites_by[key] = {"loc": el.loc, "kind": kindk, "proved": ok, "detail": detail}
        else:
            prev["proved"] = prev["proved"] and ok       # must hold in every state that reaches the site
            if not ok:
                prev["detail"] = detail

    def refine(self, st, cond, pol):
        """State on the edge where `cond` evaluates to pol."""
        facts, rng = dict(st[0]), dict(st[1])
        c = strip(cond)
        while kind(c) == "un" and c[1] == "!":
            c = strip(c[2])
            pol = not pol
        if kind(c) != "bin":
            return (facts, rng)
        op, L, R = c[1], strip(c[2]), strip(c[3])

        def addfact(v, k):
            if facts.get(v, -10 ** 9) < k:
                facts[v] = k
        # cursor versus end
        if self.is_cur(L) and self.is_end(R) or self.is_cur(R) and self.is_end(L):
            if self.is_cur(R):
                op = {"<": ">", ">": "<", "<=": ">=", ">=": "<=", "==": "==", "!=": "!="}[op]
            nonempty = (op in (">=", "==") and not pol) or (op in ("<", "!=") and pol)
            if nonempty:
                addfact(None, 1)
            return (facts, rng)
        # n versus end - cursor
        if self.is_rem(L) or self.is_rem(R):
            if self.is_rem(L):
                op = {"<": ">", ">": "<", "<=": ">=", ">=": "<=", "==": "==", "!=": "!="}[op]
                L, R = R, L
            # now: L op rem
            ge = (op == ">" and not pol) or (op == "<=" and pol) or (op == "==" and pol) or (op == "!=" and not pol)
            if ge:
                if kind(L) == "var":
                    addfact(L[1], 0)
                elif is_int(L):
                    addfact(None, int_val(L))
            return (facts, rng)
        # ranges of integer variables
        if kind(L) == "bin" and L[1] == "&" and kind(strip(L[2])) == "var" and is_int(L[3]) and int_val(L[3]) == 0x80 and is_int(R):
            v = strip(L[2])[1]
            lo, hi = rng.get(v, (0, 0xFF))
            bit_set = (op == "==" and int_val(R) == 0x80 and pol) or (op == "==" and int_val(R) == 0 and not pol) or \
                      (op == "!=" and int_val(R) == 0 and pol) or (op == "!=" and int_val(R) == 0x80 and not pol)
            bit_clear = (op == "==" and int_val(R) == 0 and pol) or (op == "!=" and int_val(R) == 0 and not pol)
            if bit_set and (hi is None or hi <= 0xFF):
                rng[v] = (max(lo, 0x80), 0xFF if hi is None else hi)
            elif bit_clear:
                rng[v] = (lo, 0x7F if hi is None else min(hi, 0x7F))
            return (facts, rng)
        if kind(L) == "var" and is_int(R):
            v, k = L[1], int_val(R)
            lo, hi = rng.get(v, (0, None))
            if (op == "==" and pol) or (op == "!=" and not pol):
                rng[v] = (k, k)
            elif (op == "==" and not pol) or (op == "!=" and pol):
                if k == lo:
                    lo += 1
                if hi is not None and k == hi:
                    hi -= 1
                rng[v] = (lo, hi)
            elif (op == ">" and pol) or (op == "<=" and not pol):
                rng[v] = (max(lo, k + 1), hi)
            elif (op == ">=" and pol) or (op == "<" and not pol):
                rng[v] = (max(lo, k), hi)
            elif (op == "<" and pol) or (op == ">=" and not pol):
                rng[v] = (lo, k - 1 if hi is None else min(hi, k - 1))
            elif (op == "<=" and pol) or (op == ">" and not pol):
                rng[v] = (lo, k if hi is None else min(hi, k))
        return (facts, rng)

    @staticmethod
    def join(a, b):
        if a is None:
            return b
        if b is None:
            return a
        facts = {v: min(a[0][v], b[0][v]) for v in a[0] if v in b[0]}
        rng = {}
        for v in a[1]:
            if v in b[1]:
                la, ha = a[1][v]
                lb_, hb = b[1][v]
                rng[v] = (min(la, lb_), None if ha is None or hb is None else max(ha, hb))
        return (facts, rng)

    @staticmethod
    def freeze(st):
        return (tuple(sorted(st[0].items(), key=repr)), tuple(sorted(st[1].items())))

    def solve(self):
        f = self.f
        self.sites_by = {}
        inn = {f.entry: ({}, {})}
        # bytes declared `unsigned char` start in [0, 255]
        work = [f.entry]
        rounds = 0
        while work and rounds < 4000:
            rounds += 1
            b = work.pop(0)
            st = inn[b]
            blk = f.blocks[b]
            cur = (dict(st[0]), dict(st[1]))
            for el in blk.elems:
                if el.top:
                    cur = self.apply_elem(cur, el)
            for (s, pol) in f.succ_edges(b):
                if s is None:
                    continue
                out = cur
                if pol is not None and blk.cond is not None:
                    out = self.refine(cur, blk.cond, pol)
                new = self.join(inn.get(s), out)
                # widening of facts at loop heads is not needed: constants only decrease through joins (min) and are bounded below by reads failing
                if s not in inn or self.freeze(new) != self.freeze(inn[s]):
                    if rounds > 3000:
                        new = ({}, {})
                    inn[s] = new
                    if s not in work:
                        work.append(s)
        if work:
            raise AnalysisBroken("R-CURSOR: no fixpoint in %s after %d steps" % (f.name, rounds))
        # final pass: evaluate sites with the fixpoint states only
        self.sites_by = {}
        for b, st in inn.items():
            cur = (dict(st[0]), dict(st[1]))
            for el in f.blocks[b].elems:
                if el.top:
                    cur = self.apply_elem(cur, el)
        self.sites = list(self.sites_by.values())


def scan(prog):
    sites = []
    for (fname, cur, end, props) in CURSORS:
        f = prog.functions.get(fname)
        if f is None or not f.blocks:
            raise AnalysisBroken("R-CURSOR: function %s vanished" % fname)
        if end not in f.vars and end not in f.param_index:
            raise AnalysisBroken("R-CURSOR: %s has no `%s` any more" % (fname, end))
        c = Cur(prog, f, cur, end)
        for s in sorted(c.sites, key=lambda s: int(s["loc"].rsplit(":", 1)[1])):
            s = dict(s)
            s["fn"] = fname
            s["idbase"] = "R-CURSOR:%s:%s" % (fname, s["kind"])
            s["text"] = "in %s every %s through the DER cursor stays inside [cursor, %s)" % (fname, {"read": "read", "copy": "copy", "advance": "advance"}[s["kind"]], end)
            s["props"] = props
            sites.append(s)
    return sites


def obligations(prog):
    tab = load_table("cursor_sites.json")
    sites = scan(prog)
    obs = armed_group_obligations("R-CURSOR", sites, tab["groups"], unproved=tab.get("unproved"))
    return obs, {"sites": len(sites), "proved_now": sum(1 for s in sites if s["proved"]),
                 "not_provable_sites": ["%s @%s: %s" % (s["idbase"], s["loc"], s["detail"]) for s in sites if not s["proved"]]}


if __name__ == "__main__":
    import sys
    import json
    prog = program("K0")
    sites = scan(prog)
    if len(sys.argv) > 1 and sys.argv[1] == "regen":
        g, u = {}, {}
        for s in sites:
            d = g if s["proved"] else u
            d[s["idbase"]] = d.get(s["idbase"], 0) + 1
        json.dump({"_comment": "R-CURSOR: per (function, kind) the number of cursor reads / copies / advances proved inside the buffer on the reviewed tree "
                               "(python3 rules/r_cur.py regen).", "groups": dict(sorted(g.items())), "unproved": {k: v for k, v in sorted(u.items()) if k in g}},
                  open(os.path.join(VERIF, "tables", "cursor_sites.json"), "w"), indent=0)
    for s in sites:
        print("PROVED  " if s["proved"] else "UNPROVED", s["idbase"], s["loc"], "|", s["detail"])
    print(sum(1 for s in sites if s["proved"]), "proved of", len(sites))
