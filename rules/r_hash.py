"""R-HASH — the length arithmetic of SHA-256 finalisation and of the HMAC key schedule (C05 hashing clause; C01 / C02 through
RFC 6979 and the tagged hashes).

  pad      secp256k1_sha256_finalize writes L(b) bytes of the 0x80 00 .. pad, b = bytes mod 64.  L is a function of b alone
           (every occurrence of hash->bytes in it sits under `% 64` / `& 63`), so it is decided by evaluating its expression
           tree for each of the 64 residues: 1 <= L(b) <= sizeof(pad) and (b + L(b)) mod 64 = 56 — the 8-byte length then
           ends the block.  `(bufsize < 55 ? 56 : 120) - bufsize` fails at b = 55 (and reads pad[64]).
  length   the two words handed to secp256k1_write_be32 for the size descriptor satisfy 2^32 w0 + w1 = 8 bytes for every
           bytes < 2^61 (limbs engine: exact forms), they go to offsets 0 and 4, and the descriptor is written after the pad
           with length 8.
  hmac     secp256k1_hmac_sha256_initialize copies a key as it is exactly up to the block size: the largest key length that
           takes the copying branch equals sizeof(rkey) = 64 (RFC 2104: only keys *longer* than a block are hashed); the
           xor constants give key ^ 0x5c to the outer and key ^ 0x36 to the inner hash.
"""
from sxlib import *
from core import Obligation
from limbs import Limbs, Undecided, Frame, padd, pscale, patom, pconst, Val

PROPS = {"C05", "C01", "C02"}


def _single_defs(f):
    d = {}
    for el in f.elems():
        e = el.e
        if kind(e) == "decls":
            for x in e[1:]:
                if x[2] is not None:
                    d.setdefault(x[1], []).append(x[2])
        elif kind(e) == "assign" and kind(strip(e[2])) == "var":
            d.setdefault(strip(e[2])[1], []).append(e[3] if e[1] == "=" else None)
    return {k: v[0] for k, v in d.items() if len(v) == 1 and v[0] is not None}


class _NotConst(Exception):
    pass


def ceval(e, env, defs, depth=0):
    """Value of an integer expression tree under env (memory key -> int); locals with one definition are followed."""
    if depth > 40:
        raise _NotConst("depth")
    e0 = e
    k = kind(e)
    if k in ("narrow",):
        return ceval(e[3], env, defs, depth + 1) & ((1 << e[2]) - 1)
    if k == "bool":
        return int(bool(ceval(e[1], env, defs, depth + 1)))
    if k == "int":
        return int(e[1])
    key = show(e)
    if key in env:
        return env[key]
    if k == "var" and e[1] in defs:
        return ceval(defs[e[1]], env, defs, depth + 1)
    if k == "cond":
        return ceval(e[2] if ceval(e[1], env, defs, depth + 1) else e[3], env, defs, depth + 1)
    if k == "un":
        v = ceval(e[2], env, defs, depth + 1)
        bits = e[3] if len(e) > 4 and e[3] else 32
        if e[1] == "!":
            return int(not v)
        if e[1] == "~":
            return ~v & ((1 << bits) - 1)
        if e[1] == "-":
            return -v & ((1 << bits) - 1)
        raise _NotConst(e[1])
    if k == "bin":
        a = ceval(e[2], env, defs, depth + 1)
        if e[1] == "&&":
            return int(bool(a) and bool(ceval(e[3], env, defs, depth + 1)))
        if e[1] == "||":
            return int(bool(a) or bool(ceval(e[3], env, defs, depth + 1)))
        b = ceval(e[3], env, defs, depth + 1)
        bits = e[4] if len(e) > 5 and e[4] else 64
        signed = bool(e[5]) if len(e) > 5 else False
        op = e[1]
        if op in ("<", ">", "<=", ">=", "==", "!="):
            return int({"<": a < b, ">": a > b, "<=": a <= b, ">=": a >= b, "==": a == b, "!=": a != b}[op])
        if op in ("/", "%") and b == 0:
            raise _NotConst("division by zero")
        r = {"+": lambda: a + b, "-": lambda: a - b, "*": lambda: a * b, "/": lambda: a // b, "%": lambda: a % b, "&": lambda: a & b,
             "|": lambda: a | b, "^": lambda: a ^ b, "<<": lambda: a << b, ">>": lambda: a >> b}.get(op)
        if r is None:
            raise _NotConst(op)
        v = r()
        if signed:
            if not -(1 << (bits - 1)) <= v < (1 << (bits - 1)):
                raise _NotConst("signed overflow")
            return v
        return v & ((1 << bits) - 1)
    raise _NotConst(show(e0)[:40])


def _calls(f, name):
    return [(el, c) for el, c in f.all_calls() if callee_name(c) == name]


def pad_obligations(prog):
    obs = []
    f = prog.fn("secp256k1_sha256_finalize")
    defs = _single_defs(f)
    writes = _calls(f, "secp256k1_sha256_write")
    hashp = next((p["name"] for p in f.params if (p.get("pointee") or "").endswith("secp256k1_sha256")), None)
    if len(writes) < 2 or hashp is None:
        raise AnalysisBroken("R-HASH: secp256k1_sha256_finalize no longer writes pad and size descriptor through secp256k1_sha256_write")
    bkey = "%s->bytes" % hashp
    # the pad write: its data argument is a static array that starts with 0x80
    padw = None
    for el, c in writes:
        d = strip(c[3][-2])
        d = strip(d[1]) if kind(d) == "decay" else d
        if kind(d) in ("gvar", "var") and (f.vars.get(d[1]) or {}).get("array_n"):
            if padw is None:
                padw = (el, c, d[1])
    if padw is None:
        raise AnalysisBroken("R-HASH: pad write not found in secp256k1_sha256_finalize")
    el, c, padname = padw
    cap = f.vars[padname]["array_n"]
    L = c[3][-1]
    # L depends on bytes only modulo 64
    bad, detail = None, []
    try:
        for b in range(64):
            vals = {ceval(L, {bkey: b + 64 * k}, defs) for k in (0, 1, 5, (1 << 55) + 3)}
            if len(vals) != 1:
                bad = "pad length depends on more than bytes mod 64 (b = %d: %s)" % (b, sorted(vals))
                break
            n = vals.pop()
            if not 1 <= n <= cap:
                bad = "for bytes mod 64 = %d the pad length is %d, outside 1 .. sizeof(%s) = %d" % (b, n, padname, cap)
                break
            if (b + n) % 64 != 56:
                bad = "for bytes mod 64 = %d the pad length %d leaves the buffer at %d, not at 56: the 8-byte length does not end the block" % (b, n, (b + n) % 64)
                break
    except _NotConst as ex:
        obs.append(Obligation("R-HASH", "R-HASH:secp256k1_sha256_finalize:pad-length", el.loc, f.name,
                              "the pad length brings every buffer fill to 56 mod 64 with at least one pad byte", True,
                              "NOT DECIDED: %s in `%s`" % (ex, show(L)[:80]), props=PROPS))
        bad = False
    if bad is not False:
        obs.append(Obligation("R-HASH", "R-HASH:secp256k1_sha256_finalize:pad-length", el.loc, f.name,
                              "the pad length brings every buffer fill to 56 mod 64 with at least one pad byte", bad is None,
                              bad or "`%s` evaluated for all 64 residues of bytes mod 64: 1 <= L <= %d and (b + L) mod 64 = 56" % (show(L)[:80], cap), props=PROPS))
    # the size descriptor
    from limbs import Limbs, Undecided, Frame, padd, pscale, patom
    be = [(el2, c2, 4) for el2, c2 in _calls(f, "secp256k1_write_be32")] + [(el2, c2, 8) for el2, c2 in _calls(f, "secp256k1_write_be64")]

    def _desc_off(a):
        """Byte offset into the 8-byte descriptor array that pointer expression a denotes, or None."""
        a = strip(a)
        if kind(a) == "addr" and kind(strip(a[1])) == "index":
            r_, o_ = lvalue_root(a), int_val(strip(a[1])[2])
        elif kind(a) == "decay":
            r_, o_ = lvalue_root(a), 0
        else:
            return None
        if r_ is None or f.vars.get(r_[1], {}).get("array_n") != 8:
            return None
        return o_
    desc = [(el2, c2, n_, _desc_off(c2[3][0])) for el2, c2, n_ in be if _desc_off(c2[3][0]) is not None]
    ok, det, loc = False, "", f.loc
    cover = sorted((o_, o_ + n_) for _e, _c, n_, o_ in desc)
    tiled = bool(cover) and cover[0][0] == 0 and cover[-1][1] == 8 and all(cover[i][1] == cover[i + 1][0] for i in range(len(cover) - 1))
    if not tiled:
        ok, det = True, "NOT DECIDED: the size descriptor is not assembled from big-endian word stores that tile its 8 bytes (%s)" % (cover,)
    else:
        try:
            Lm = Limbs(prog, lambda key: (1 << 61) - 1 if key.endswith(".bytes") else None)
            fr = Frame(f, "")
            R = {}
            for el2, c2, n_, o_ in desc:
                Lm.loc = el2.loc
                w = Lm.fit(Lm.ev(c2[3][1], fr), 8 * n_, "argument of %s" % c2[1])
                R = padd(R, pscale(w.p, 1 << (8 * (8 - n_ - o_))))
            loc = desc[0][0].loc
            if not Lm.inputs:
                ok, det = False, "the size descriptor does not depend on the byte count"
            else:
                b = next(iter(Lm.inputs.values()))
                R = padd(R, pscale(patom(b), 8), -1)
                wrong, dropped, unk = Lm.residual_report(R)
                if unk or Lm.undecided:
                    raise Undecided("; ".join(Lm.undecided[:2]))
                ok = not wrong and not dropped
                words = ", ".join("`%s` at %d" % (show(c2[3][1])[:36], o_) for _e, c2, _n, o_ in desc)
                det = ("the descriptor is the 64-bit big-endian value 8 * bytes for every bytes < 2^61 (%s)" % words) if ok else \
                    "the descriptor is not the bit count 8 * bytes (%s)" % words
        except Undecided as ex:
            ok, det = True, "NOT DECIDED: %s" % ex
    obs.append(Obligation("R-HASH", "R-HASH:secp256k1_sha256_finalize:bit-count", loc, f.name,
                          "the size descriptor is the big-endian 64-bit bit count", ok, det, props=PROPS))
    # descriptor written after the pad, 8 bytes
    order_ok, odet = False, ""
    dw = [(el2, c2) for el2, c2 in writes if (el2, c2) != (el, c)]
    if dw:
        el2, c2 = dw[0]
        n8 = int_val(c2[3][-1])
        after = (el2.blk, el2.idx) != (el.blk, el.idx) and (el2.blk == el.blk and el2.idx > el.idx or el2.blk in f.reachable_from(el.blk) and el2.blk != el.blk)
        order_ok = n8 == 8 and after
        odet = "descriptor write of %s bytes %s the pad write" % (n8, "after" if after else "NOT after")
    obs.append(Obligation("R-HASH", "R-HASH:secp256k1_sha256_finalize:descriptor-last", dw[0][0].loc if dw else f.loc, f.name,
                          "the 8-byte size descriptor is absorbed after the pad", order_ok, odet, props=PROPS))
    return obs


def hmac_obligations(prog):
    obs = []
    f = prog.fn("secp256k1_hmac_sha256_initialize")
    from giv import Giv
    klen = next((p["name"] for p in f.params if p["name"].endswith("len")), None)
    rk = next((n for n, v in f.vars.items() if v.get("array_n") == 64), None)
    if klen is None or rk is None:
        raise AnalysisBroken("R-HASH: key length parameter / 64-byte key block of secp256k1_hmac_sha256_initialize not found")
    dom = f.dominators()
    T, where, how = None, f.loc, ""
    for b in f.blocks.values():
        if b.cond is None:
            continue
        c = strip(b.cond)
        neg = False
        while kind(c) == "un" and c[1] == "!":
            c, neg = strip(c[2]), not neg
        if kind(c) != "bin" or c[1] not in ("<", ">", "<=", ">="):
            continue
        op, Lh, Rh = c[1], c[2], c[3]
        if Giv.key(Rh) == klen and int_val(Lh) is not None:
            op = {"<": ">", ">": "<", "<=": ">=", ">=": "<="}[op]
            Lh, Rh = Rh, Lh
        if Giv.key(Lh) != klen or int_val(Rh) is None:
            continue
        C = int_val(Rh)
        # which side copies the key as it is?
        side = None
        for i, sx in enumerate(b.succs):
            if sx is None:
                continue
            region = {x for x in f.blocks if x == sx or (sx in dom.get(x, ()))}
            for x in region:
                for el in f.blocks[x].elems:
                    for cc in calls_in(el.e):
                        if callee_name(cc) == "memcpy" and klen in vars_in(cc[3][2]) and (lvalue_root(cc[3][0]) or [0, 0])[1] == rk:
                            side = i
        if side is None:
            continue
        truth = (side == 0) != neg
        # largest key length for which the condition has value `truth`
        if op in ("<", "<=") and truth:
            T = C - 1 if op == "<" else C
        elif op in (">", ">=") and not truth:
            T = C if op == ">" else C - 1
        else:
            T = None
            how = "the copying branch is taken for LARGE keys"
        where, how = b.term["loc"], how or "`%s`" % show(b.cond)
    ok = T == 64
    obs.append(Obligation("R-HASH", "R-HASH:secp256k1_hmac_sha256_initialize:block-size-key", where, f.name,
                          "a key is used as it is exactly up to the SHA-256 block size (64 bytes); only longer keys are hashed", ok,
                          "largest key length copied unhashed: %s (%s); sizeof(%s) = 64" % (T, how, rk), props=PROPS))
    # xor constants: the outer hash absorbs key ^ 0x5c, the inner hash key ^ 0x36
    xors, keyed, seen = [], [], {}
    for bid in f.blocks:
        for el in f.blocks[bid].elems:
            if not el.top:
                continue
            e = el.e
            if kind(e) == "assign" and e[1] == "^=" and (lvalue_root(e[2]) or [0, 0])[1] == rk and int_val(e[3]) is not None:
                xors.append((bid, int_val(e[3])))
            for cc in calls_in(e):
                if callee_name(cc) == "secp256k1_sha256_write" and (lvalue_root(cc[3][-2]) or [0, 0])[1] == rk:
                    keyed.append((bid, show(cc[3][-3])))
    for (wb, tgt) in keyed:
        acc = 0
        for (xb, cst) in xors:
            # the xor loop lies in front of the write: the write is reachable from it, not the other way round
            if wb in f.reachable_from(xb) and xb not in f.reachable_from(wb):
                acc ^= cst
        seen["outer" if "outer" in tgt else "inner" if "inner" in tgt else tgt] = acc
    ok = seen.get("outer") == 0x5c and seen.get("inner") == 0x36
    obs.append(Obligation("R-HASH", "R-HASH:secp256k1_hmac_sha256_initialize:pads", f.loc, f.name,
                          "the outer hash absorbs key ^ 0x5c and the inner hash key ^ 0x36", ok,
                          "; ".join("%s <- key ^ 0x%02x" % (k, v) for k, v in sorted(seen.items())) or "no keyed writes found", props=PROPS))
    return obs


def be_region(prog, f, nbytes, input_ub, want_arr=None):
    """Final content, as one big-endian integer form, of bytes [0, nbytes) of a local byte array that the function fills with
    secp256k1_write_be32 / secp256k1_write_be64 stores (last writer per byte; bytes no store reaches are zero when the
    array has a `= {0}` initialiser).  Returns (array name, polynomial, engine) or raises Undecided."""
    stores = []
    for el, c in f.all_calls():
        n = {"secp256k1_write_be32": 4, "secp256k1_write_be64": 8}.get(callee_name(c))
        if not n:
            continue
        a = strip(c[3][0])
        if kind(a) == "addr" and kind(strip(a[1])) == "index":
            root, off = lvalue_root(a), int_val(strip(a[1])[2])
        elif kind(a) == "decay":
            root, off = lvalue_root(a), 0
        else:
            continue
        if root is None or off is None or not (f.vars.get(root[1]) or {}).get("array_n"):
            continue
        if want_arr and root[1] != want_arr:
            continue
        stores.append((el, c, n, off, root[1]))
    arrs = {s[4] for s in stores if s[3] < nbytes}
    if len(arrs) != 1:
        raise Undecided("%d candidate arrays" % len(arrs))
    arr = arrs.pop()
    stores = [s for s in stores if s[4] == arr]
    # program order: all stores must lie in one block chain without branching in between (straight-line prefix)
    order = sorted(stores, key=lambda s: (-s[0].blk, s[0].idx))
    zero_init = False
    for el in f.elems():
        if kind(el.e) == "decls":
            for d in el.e[1:]:
                if d[1] == arr and d[2] is not None and kind(d[2]) == "init":
                    zero_init = all(is_int(x, 0) for x in d[2][1:] if kind(x) != "elided")
    L = Limbs(prog, input_ub)
    fr = Frame(f, "")
    byte_src = {}
    for el, c, n, off, _a in order:
        L.loc = el.loc
        w = L.fit(L.ev(c[3][1], fr), 8 * n, "argument of %s" % c[1])
        for j in range(n):
            if off + j < nbytes:
                byte_src[off + j] = (w, n - 1 - j)          # byte j of the store is byte (n-1-j) of the word
    total = {}
    for pos in range(nbytes):
        if pos not in byte_src:
            if zero_init:
                continue
            raise Undecided("byte %d of %s is not written by a word store" % (pos, arr))
        w, b = byte_src[pos]
        lo, q = L.split(w, 1 << (8 * b), "byte %d" % b)
        lo2, q2 = L.split(q, 256, "byte %d" % b)
        total = padd(total, pscale(lo2.p, 1 << (8 * (nbytes - 1 - pos))))
    if L.undecided:
        raise Undecided("; ".join(L.undecided[:2]))
    return arr, total, L


def obligations(prog):
    obs = pad_obligations(prog) + hmac_obligations(prog)
    return obs, {"clauses": len(obs)}


if __name__ == "__main__":
    import sys
    for o in obligations(program(sys.argv[1] if len(sys.argv) > 1 else "K0"))[0]:
        print("OK  " if o.ok else "FAIL", o.oid, "|", o.detail[:200])
