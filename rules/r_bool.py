"""R-BOOL — verdict domain (DESIGN §4): every exported function with an int verdict returns only 0 or 1.

Greatest fixpoint over the call graph: a function is boolean-valued when every `return e` has a boolean-valued e:
literals 0/1, !x, comparisons, && ||, a & b with one boolean side, a | b / a ^ b with two, ?: with boolean arms,
calls of boolean-valued functions, and variables all of whose definitions in the function are boolean-valued
(`v &= x` keeps v boolean when v already is; `v = f()` needs f boolean; an out-parameter write makes v unknown).
Named exceptions (tables/bool_exceptions.json) are the documented non-boolean verdicts (comparators, iteration counts).
"""
from sxlib import *
from core import Obligation, load_table

# primitives whose result is a stored flag that the repository keeps in {0,1} by invariant (asserted by SECP256K1_GE(J)_VERIFY)
PRIMITIVE_BOOL = {"secp256k1_gej_is_infinity", "secp256k1_ge_is_infinity"}
# const function-pointer globals of the public API and the library function they are initialised with
FNPTR_GLOBALS = {
    "secp256k1_nonce_function_default": "nonce_function_rfc6979",
    "secp256k1_nonce_function_rfc6979": "nonce_function_rfc6979",
}


def _is_boolfn_ret(fn):
    return fn.ret == "int"


class BoolDomain:
    def __init__(self, prog):
        self.prog = prog
        self.cand = {n for n, f in prog.functions.items() if f.ret == "int" and f.blocks}
        self.why = {}
        changed = True
        while changed:
            changed = False
            for n in sorted(self.cand):
                f = prog.functions[n]
                bad = self.first_nonbool_return(f)
                if bad is not None:
                    self.cand.discard(n)
                    self.why[n] = bad
                    changed = True

    def var_defs(self, f, v):
        out = []
        for el in f.elems():
            for (n, op, rhs, via) in defs_in_elem(el.e):
                if n == v:
                    out.append((op, rhs, via, el))
        return out

    def bexpr(self, f, e, seen=()):
        e = strip(e) if kind(e) == "narrow" else e
        k = kind(e)
        if k == "bool":
            return True
        if k == "int":
            return int(e[1]) in (0, 1)
        if k == "un":
            if e[1] == "!":
                return True
            return False
        if k == "bin":
            op = e[1]
            if op in ("<", ">", "<=", ">=", "==", "!=", "&&", "||"):
                return True
            if op == "&":
                return self.bexpr(f, e[2], seen) or self.bexpr(f, e[3], seen)
            if op in ("|", "^"):
                return self.bexpr(f, e[2], seen) and self.bexpr(f, e[3], seen)
            return False
        if k == "cond":
            return self.bexpr(f, e[2], seen) and self.bexpr(f, e[3], seen)
        if k == "call":
            n = callee_name(e)
            if n is None and kind(strip(e[1])) == "gvar":
                n = FNPTR_GLOBALS.get(strip(e[1])[1])
            return n in self.cand or n in PRIMITIVE_BOOL
        if k == "var":
            v = e[1]
            if v in seen:
                return True
            if v in f.param_index:
                return False
            defs = self.var_defs(f, v)
            if not defs:
                return False
            for (op, rhs, via, el) in defs:
                if via == "outparam":
                    # a callee writes v: boolean only for the repository's flag out-parameters
                    c = rhs
                    if callee_name(c) in ("secp256k1_scalar_set_b32",):
                        continue
                    return False
                if via == "incdec":
                    return False
                if op == "=":
                    if rhs is None or not self.bexpr(f, rhs, seen + (v,)):
                        return False
                elif op == "&=":
                    continue      # v & x with v boolean stays boolean; the other definitions decide v
                elif op in ("|=", "^="):
                    if not self.bexpr(f, rhs, seen + (v,)):
                        return False
                else:
                    return False
            return True
        if k == "assign":
            return self.bexpr(f, e[3], seen)
        return False

    def first_nonbool_return(self, f):
        for el in f.returns():
            e = el.e[1]
            if e is None:
                continue
            if not self.bexpr(f, e):
                return (el.loc, show(e))
        return None


def obligations(prog):
    exc = load_table("bool_exceptions.json")
    bd = BoolDomain(prog)
    obs = []
    used = set()
    n = 0
    for f in sorted(prog.exported(), key=lambda x: x.name):
        if f.ret != "int":
            continue
        n += 1
        oid = "R-BOOL:%s" % f.name
        text = "%s returns only 0 or 1" % f.name
        if f.name in bd.cand:
            obs.append(Obligation("R-BOOL", oid, f.loc, f.name, text, True, "every return expression is boolean-valued"))
        elif f.name in exc:
            used.add(f.name)
            loc, ex = bd.why.get(f.name, (f.loc, "?"))
            obs.append(Obligation("R-BOOL", oid, loc, f.name, text, True, "returns `%s`; documented non-boolean verdict" % ex[:60], exception=exc[f.name]))
        else:
            loc, ex = bd.why.get(f.name, (f.loc, "?"))
            # trace to the root cause through callees
            chain = [f.name]
            cur = f
            for _ in range(6):
                m = [callee_name(c) for c in calls_in(["return", None]) ]
                break
            obs.append(Obligation("R-BOOL", oid, loc, f.name, text, False, "`return %s` is not provably in {0,1}" % ex[:100]))
    stale = sorted(set(exc) - used - {"_comment"})
    if stale:
        raise AnalysisBroken("R-BOOL: exception entries that no longer apply: %s" % ", ".join(stale))
    if n < 100:
        raise AnalysisBroken("R-BOOL: only %d exported int functions (floor 100)" % n)
    return obs, {"exported_int_functions": n, "boolean_valued_functions": len(bd.cand)}


if __name__ == "__main__":
    prog = program("K0")
    import json, sys
    bd = BoolDomain(prog)
    for f in sorted(prog.exported(), key=lambda x: x.name):
        if f.ret == "int" and f.name not in bd.cand:
            print("NONBOOL", f.name, bd.why.get(f.name))
    print(len(bd.cand), "boolean functions")
