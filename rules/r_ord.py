"""R-ORD — hash transcript order (added in the build phase).

For every function that absorbs two or more items into one SHA-256 state (secp256k1_sha256_write /
secp256k1_hmac_sha256_write on the same hash object), the order in which *parameter-rooted* items and local buffers
are absorbed is part of the specification: swapping two writes changes every challenge / message hash while prover and
verifier built from the same tree stay consistent with each other, so tests cannot see it.

Items are identified robustly: a data argument rooted in a parameter is named by that parameter's position, anything
else is the class "local".  For each pair of items (A, B) where on the reviewed tree every write of A precedes every
write of B (B is reachable from A in the CFG and A is not reachable from B), that precedence is frozen in
tables/transcripts.json; a frozen precedence that no longer holds is a violation.
"""
import re

from sxlib import *
from core import Obligation, load_table, props_of_function

WRITERS = {"secp256k1_sha256_write": (1, 2), "secp256k1_hmac_sha256_write": (1, 2)}   # (hash object arg, data arg)


_SKIP_ARG_TYPES = ("context", "hash_ctx", "callback", "sha256", "scratch")
_PROG = [None]


def _last_def(fn, name, at):
    """The latest element before `at` (same block, then back along unique predecessors) that writes the local object
    `name`: (element, call or rhs, kind).  None when it cannot be found that way."""
    blk, idx = at.blk, at.idx
    for _ in range(8):
        b = fn.blocks[blk]
        for el in reversed([x for x in b.elems if x.top and (idx is None or x.idx < idx)]):
            for c in calls_in(el.e):
                cn = callee_name(c)
                for i, a in enumerate(c[3]):
                    a0 = strip(a)
                    if kind(a0) == "addr":
                        a0 = strip(a0[1])
                    if kind(a0) == "decay":
                        a0 = strip(a0[1])
                    if kind(a0) == "var" and a0[1] == name and not param_is_const_ptr(cn, i):
                        return el, c, i
            for (n, op, rhs, via) in defs_in_elem(el.e):
                if n == name and via in ("assign", "decl") and rhs is not None:
                    return el, rhs, None
        preds = [p for p in b.preds if p is not None]
        if len(preds) != 1:
            return None
        blk, idx = preds[0], None
    return None


def _item(fn, e, depth=0, at=None):
    """Name of what is absorbed: the parameter(s) it is rooted in — directly, or through a local buffer that was last
    filled from parameter-rooted inputs (`pubkey_load(ctx, &ge, &keys[i]); serialize33(&ge, c); sha256_write(.., c, 33)`
    is the item keys) — or "local"."""
    r = lvalue_root(e)
    if r is not None and kind(r) == "var" and r[1] in fn.param_index:
        return "param%d(%s)" % (fn.param_index[r[1]], r[1])
    if r is not None and kind(r) == "var" and depth < 5:
        # a local pointer with a single definition rooted in a parameter is that parameter
        v = fn.vars.get(r[1])
        if v and v.get("ptr"):
            defs = [(op, rhs, via) for el in fn.elems() for (n, op, rhs, via) in defs_in_elem(el.e) if n == r[1]]
            if len(defs) == 1 and defs[0][0] == "=" and defs[0][2] in ("assign", "decl") and defs[0][1] is not None:
                return _item(fn, defs[0][1], depth + 1, at)
        if at is not None and v and not v.get("ptr"):
            pos = at
            for _ in range(4):
                d = _last_def(fn, r[1], pos)
                if d is None:
                    break
                el, src, ai = d
                items = set()
                if ai is None:
                    srcs = [x for x in walk(src) if kind(x) in ("var",)]
                else:
                    cn = callee_name(src)
                    g = _PROG[0].functions.get(cn) if _PROG[0] else None
                    srcs = []
                    for i, a in enumerate(src[3]):
                        if i == ai or is_int(a):
                            continue
                        if g is not None and i < len(g.params) and any(t in g.params[i]["type"] for t in _SKIP_ARG_TYPES):
                            continue
                        if g is not None and i < len(g.params) and g.params[i].get("ptr") and not g.params[i].get("pointee_const") and \
                                (g.params[i].get("pointee_bytes") or 0) <= 8:
                            continue          # another plain output of that call (byte buffer, int flag), not an input;
                                              # non-const struct objects are in/out here (in-place normalisation) and stay inputs
                        srcs.append(a)
                for a in srcs:
                    it = _item(fn, a, depth + 1, el)
                    if it != "local":
                        items.update(it.split("+"))
                if items:
                    return "+".join(sorted(items))
                if ai is None:
                    break
                pos = el          # an in-place update (normalise, negate, ...) with no other input: look at the definition before it
    return "local"


def _pos_key(item):
    return re.sub(r"\([^)]*\)", "", item)


_CALL_ORDER = {}      # call id -> set of (k1, k2): inside that helper call, write k1 strictly precedes write k2


def _in_scope(f):
    return bool(f.blocks) and f.file.startswith("src/") and not f.file.endswith("tests_impl.h") and not f.file.startswith(("src/bench", "src/tests", "src/ctime"))


def _raw_writes(prog, f, memo, depth=0):
    """{hash object: [(item, block, elem index, loc, call id, k)]} — direct writes, plus the writes of helpers that are
    handed the hash object in a parameter (their items mapped back through the call's arguments), so that moving a few
    writes into a static helper does not change the transcript the rule sees."""
    if f.name in memo:
        return memo[f.name]
    memo[f.name] = {}
    per = {}
    for b in f.blocks.values():
        for el in b.elems:
            if not el.top:
                continue
            for c in calls_in(el.e):
                cn = callee_name(c)
                w = WRITERS.get(cn)
                if w:
                    if len(c[3]) <= max(w):
                        continue
                    h = show(strip(c[3][w[0]]))
                    per.setdefault(h, []).append((_item(f, c[3][w[1]], 0, el), b.id, el.idx, c[2], None, 0))
                    continue
                g = prog.functions.get(cn)
                if g is None or not _in_scope(g) or g.name == f.name or depth > 2 or g.file == "src/hash_impl.h":
                    continue          # (the hash primitive's own padding / key-schedule writes are not transcript items)
                gw = _raw_writes(prog, g, memo, depth + 1)
                for gh, ws in gw.items():
                    if gh not in g.param_index or g.param_index[gh] >= len(c[3]):
                        continue          # the helper hashes into its own object, not into one it was handed
                    h = show(strip(c[3][g.param_index[gh]]))
                    cid = "%s@%s" % (g.name, c[2])
                    order = set()
                    for i, x in enumerate(ws):
                        for j, y in enumerate(ws):
                            if i != j and _before(g, x, y):
                                order.add((i, j))
                    _CALL_ORDER[cid] = order
                    for k, x in enumerate(ws):
                        parts = set()
                        for comp in x[0].split("+"):
                            m = re.match(r"param(\d+)\(", comp)
                            if m and int(m.group(1)) < len(c[3]):
                                it = _item(f, c[3][int(m.group(1))], 0, el)
                                if it != "local":
                                    parts.update(it.split("+"))
                        it = "+".join(sorted(parts)) if parts else "local"
                        per.setdefault(h, []).append((it, b.id, el.idx, c[2], cid, k))
    memo[f.name] = per
    return per


def transcripts(prog):
    """{function: {hash object: [(item, block, elem index, loc, call id, k)]}}"""
    out = {}
    memo = {}
    _PROG[0] = prog
    for f in prog.functions.values():
        if not _in_scope(f):
            continue
        per = _raw_writes(prog, f, memo)
        per = {h: v for h, v in per.items() if len({_pos_key(x[0]) for x in v}) >= 2}
        if per:
            out[f.name] = per
    return out


def _before(f, a, b):
    """Does write a (item, blk, idx, loc, call id, k) strictly precede write b on every path (b reachable from a, a not reachable from b)?"""
    if a[1] == b[1]:
        in_loop = f.is_loop_block(a[1])
        if a[2] == b[2] and a[4] is not None and a[4] == b[4]:
            return (a[5], b[5]) in _CALL_ORDER.get(a[4], ()) and not in_loop
        return a[2] < b[2] and not in_loop
    ra = f.reachable_from(a[1])
    rb = f.reachable_from(b[1])
    return b[1] in ra and a[1] not in rb


def _loop_heads(f):
    dom = f.dominators()
    return {h for u, b in f.blocks.items() for h in b.succs if h is not None and h in dom.get(u, ())}


def _before_iter(f, a, b, heads):
    """Inside one iteration of the enclosing loop(s): a precedes b on every path that does not go round a loop head."""
    if not (f.is_loop_block(a[1]) and f.is_loop_block(b[1])):
        return False
    if a[1] == b[1]:
        if a[2] == b[2] and a[4] is not None and a[4] == b[4]:
            return (a[5], b[5]) in _CALL_ORDER.get(a[4], ())
        return a[2] < b[2]
    dom = f.dominators()
    av = frozenset(h for h in heads if h in dom.get(a[1], ()) and h in dom.get(b[1], ()))
    if not av:
        return False
    return b[1] in f.reachable_from(a[1], avoid=av) and a[1] not in f.reachable_from(b[1], avoid=av)


def precedences(prog):
    """{(function, hash, itemA, itemB)}: every write of A precedes every write of B — over the whole function, or (for
    writes inside a loop; key suffix '@iter' on the hash) within every iteration."""
    out = {}
    for fname, per in transcripts(prog).items():
        f = prog.functions[fname]
        heads = _loop_heads(f)
        for h, ws in per.items():
            items = sorted({_pos_key(w[0]) for w in ws})
            names = {}
            for w in ws:
                names[_pos_key(w[0])] = w[0]
            for A in items:
                for B in items:
                    if A == B:
                        continue
                    wa = [w for w in ws if _pos_key(w[0]) == A]
                    wb = [w for w in ws if _pos_key(w[0]) == B]
                    if all(_before(f, x, y) for x in wa for y in wb):
                        out[(fname, h, A, B)] = (names[A], names[B], wa[0][3], wb[0][3])
                    else:
                        la = [w for w in wa if f.is_loop_block(w[1])]
                        lb = [w for w in wb if f.is_loop_block(w[1])]
                        # (per-iteration order only between parameter-rooted items: "local" is a catch-all that merges with
                        # its neighbour when two writes are combined into one buffer — benign R11/edit_8)
                        if "local" not in (A, B) and la and lb and all(_before_iter(f, x, y, heads) for x in la for y in lb):
                            out[(fname, h + "@iter", A, B)] = (names[A], names[B], la[0][3], lb[0][3])
    return out


def obligations(prog):
    table = load_table("transcripts.json")["precedences"]
    cur = precedences(prog)
    tr = transcripts(prog)
    obs = []
    reported_gone = set()
    for ent in table:
        fname, h, A, B = ent["function"], ent["hash"], ent["first"], ent["then"]
        f = prog.functions.get(fname)
        if f is None:
            continue          # a static helper was renamed / inlined: its callers' transcripts carry the items; the floor decides
        oid = "R-ORD:%s:%s:%s<%s" % (fname, h.replace(" ", ""), A, B)
        text = "in the transcript absorbed into %s, %s must be hashed before %s" % (h, ent.get("first_name", A), ent.get("then_name", B))
        # items are named by parameter position (survives renames); when the parameters of a static function were
        # reordered the recorded *names* still identify them: translate positions through the names
        def remap(key, recorded):
            parts = []
            for comp_key, comp_rec in zip(key.split("+"), (recorded or key).split("+")):
                m2 = re.match(r"param\d+\((\w+)\)", comp_rec)
                if m2 and m2.group(1) in f.param_index:
                    parts.append("param%d" % f.param_index[m2.group(1)])      # where the parameter of that name sits now
                else:
                    parts.append(comp_key)
            return "+".join(sorted(parts))
        A, B = remap(A, ent.get("first_name")), remap(B, ent.get("then_name"))
        k = (fname, h, A, B)
        if k in cur:
            obs.append(Obligation("R-ORD", oid, cur[k][2], fname, text, True, "%s at %s precedes %s at %s" % (cur[k][0], cur[k][2], cur[k][1], cur[k][3])))
        else:
            ws = tr.get(fname, {}).get(h.replace("@iter", ""), [])
            have = {_pos_key(w[0]) for w in ws}
            if A not in have or B not in have:
                gone = [x for x in (A, B) if x not in have and x != "local"]
                if ws and gone and "local" not in have:
                    # every absorbed item of this transcript is resolved to the parameters it comes from, and a parameter
                    # that used to be absorbed is not among them any more: an input dropped out of the hash
                    if (fname, h.replace("@iter", ""), gone[0]) in reported_gone:
                        continue
                    reported_gone.add((fname, h.replace("@iter", ""), gone[0]))
                    obs.append(Obligation("R-ORD", "R-ORD:%s:%s:absorbs:%s" % (fname, h.replace(" ", "").replace("@iter", ""), gone[0]), ws[0][3], fname,
                                          "the transcript absorbed into %s must still include %s" % (h.replace("@iter", ""), ent.get("first_name", A) if gone[0] == A else ent.get("then_name", B)),
                                          False, "absorbed now: %s — %s is no longer hashed" % (", ".join(sorted({w[0] for w in ws})), gone[0])))
                # otherwise the transcript changed shape (writes moved, an item flows through a buffer the rule cannot
                # trace): nothing to compare here; the instance floor decides whether too many precedences vanished
                continue
            else:
                la = [w[3] for w in ws if _pos_key(w[0]) == A]
                lb = [w[3] for w in ws if _pos_key(w[0]) == B]
                obs.append(Obligation("R-ORD", oid, lb[0], fname, text, False,
                                      "order changed: %s is written at %s, %s at %s, and the first no longer precedes the second on every path"
                                      % (A, ", ".join(la), B, ", ".join(lb))))
    return obs, {"functions_with_transcripts": len(tr), "frozen_precedences": len(table)}


if __name__ == "__main__":
    import sys, json
    prog = program("K0")
    if len(sys.argv) > 1 and sys.argv[1] == "regen":
        cur = precedences(prog)
        ents = [{"function": k[0], "hash": k[1], "first": k[2], "then": k[3], "first_name": v[0], "then_name": v[1]} for k, v in sorted(cur.items())]
        json.dump({"_comment": "R-ORD: precedences between absorbed items that hold on the reviewed tree (python3 rules/r_ord.py regen).",
                   "precedences": ents}, open(os.path.join(VERIF, "tables", "transcripts.json"), "w"), indent=0)
        print(len(ents), "precedences in", len(transcripts(prog)), "functions")
    else:
        obs, st = obligations(prog)
        print(st)
        for o in obs:
            if not o.ok:
                print("VIOL", o.oid, o.loc, o.detail)
