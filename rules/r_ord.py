"""R-ORD — hash transcript order (added in the build phase).

For every function that absorbs two or more items into one SHA-256 state (secp256k1_sha256_write /
secp256k1_hmac_sha256_write on the same hash object), the order in which *parameter-rooted* items and local buffers
are absorbed is part of the specification: swapping two writes changes every challenge / message hash while prover and
verifier built from the same tree stay consistent with each other, so tests cannot see it.

Items are identified robustly: a data argument rooted in a parameter is named by that parameter's position, anything
else is the class "local".  For each pair of items (A, B) where on the reviewed tree every write of A precedes every
write of B (B is reachable from A in the CFG and A is not reachable from B), that precedence is frozen in
tables/transcripts.json; a frozen precedence that no longer holds is a violation.
"""
import re

from sxlib import *
from core import Obligation, load_table, props_of_function

WRITERS = {"secp256k1_sha256_write": (1, 2), "secp256k1_hmac_sha256_write": (1, 2)}   # (hash object arg, data arg)


def _item(fn, e, depth=0):
    r = lvalue_root(e)
    if r is not None and kind(r) == "var" and r[1] in fn.param_index:
        return "param%d(%s)" % (fn.param_index[r[1]], r[1])
    if r is not None and kind(r) == "var" and depth < 4:
        # a local pointer with a single definition rooted in a parameter is that parameter
        v = fn.vars.get(r[1])
        if v and v.get("ptr"):
            defs = [(op, rhs, via) for el in fn.elems() for (n, op, rhs, via) in defs_in_elem(el.e) if n == r[1]]
            if len(defs) == 1 and defs[0][0] == "=" and defs[0][2] in ("assign", "decl") and defs[0][1] is not None:
                return _item(fn, defs[0][1], depth + 1)
    return "local"


def _pos_key(item):
    return item.split("(")[0]


_CALL_ORDER = {}      # call id -> set of (k1, k2): inside that helper call, write k1 strictly precedes write k2


def _in_scope(f):
    return bool(f.blocks) and f.file.startswith("src/") and not f.file.endswith("tests_impl.h") and not f.file.startswith(("src/bench", "src/tests", "src/ctime"))


def _raw_writes(prog, f, memo, depth=0):
    """{hash object: [(item, block, elem index, loc, call id, k)]} — direct writes, plus the writes of helpers that are
    handed the hash object in a parameter (their items mapped back through the call's arguments), so that moving a few
    writes into a static helper does not change the transcript the rule sees."""
    if f.name in memo:
        return memo[f.name]
    memo[f.name] = {}
    per = {}
    for b in f.blocks.values():
        for el in b.elems:
            if not el.top:
                continue
            for c in calls_in(el.e):
                cn = callee_name(c)
                w = WRITERS.get(cn)
                if w:
                    if len(c[3]) <= max(w):
                        continue
                    h = show(strip(c[3][w[0]]))
                    per.setdefault(h, []).append((_item(f, c[3][w[1]]), b.id, el.idx, c[2], None, 0))
                    continue
                g = prog.functions.get(cn)
                if g is None or not _in_scope(g) or g.name == f.name or depth > 2 or g.file == "src/hash_impl.h":
                    continue          # (the hash primitive's own padding / key-schedule writes are not transcript items)
                gw = _raw_writes(prog, g, memo, depth + 1)
                for gh, ws in gw.items():
                    if gh not in g.param_index or g.param_index[gh] >= len(c[3]):
                        continue          # the helper hashes into its own object, not into one it was handed
                    h = show(strip(c[3][g.param_index[gh]]))
                    cid = "%s@%s" % (g.name, c[2])
                    order = set()
                    for i, x in enumerate(ws):
                        for j, y in enumerate(ws):
                            if i != j and _before(g, x, y):
                                order.add((i, j))
                    _CALL_ORDER[cid] = order
                    for k, x in enumerate(ws):
                        it = x[0]
                        m = re.match(r"param(\d+)\(", it)
                        if m and int(m.group(1)) < len(c[3]):
                            it = _item(f, c[3][int(m.group(1))])
                        elif m:
                            it = "local"
                        per.setdefault(h, []).append((it, b.id, el.idx, c[2], cid, k))
    memo[f.name] = per
    return per


def transcripts(prog):
    """{function: {hash object: [(item, block, elem index, loc, call id, k)]}}"""
    out = {}
    memo = {}
    for f in prog.functions.values():
        if not _in_scope(f):
            continue
        per = _raw_writes(prog, f, memo)
        per = {h: v for h, v in per.items() if len({_pos_key(x[0]) for x in v}) >= 2}
        if per:
            out[f.name] = per
    return out


def _before(f, a, b):
    """Does write a (item, blk, idx, loc, call id, k) strictly precede write b on every path (b reachable from a, a not reachable from b)?"""
    if a[1] == b[1]:
        in_loop = f.is_loop_block(a[1])
        if a[2] == b[2] and a[4] is not None and a[4] == b[4]:
            return (a[5], b[5]) in _CALL_ORDER.get(a[4], ()) and not in_loop
        return a[2] < b[2] and not in_loop
    ra = f.reachable_from(a[1])
    rb = f.reachable_from(b[1])
    return b[1] in ra and a[1] not in rb


def precedences(prog):
    """{(function, hash, itemA, itemB)}: every write of A precedes every write of B."""
    out = {}
    for fname, per in transcripts(prog).items():
        f = prog.functions[fname]
        for h, ws in per.items():
            items = sorted({_pos_key(w[0]) for w in ws})
            names = {}
            for w in ws:
                names[_pos_key(w[0])] = w[0]
            for A in items:
                for B in items:
                    if A == B:
                        continue
                    wa = [w for w in ws if _pos_key(w[0]) == A]
                    wb = [w for w in ws if _pos_key(w[0]) == B]
                    if all(_before(f, x, y) for x in wa for y in wb):
                        out[(fname, h, A, B)] = (names[A], names[B], wa[0][3], wb[0][3])
    return out


def obligations(prog):
    table = load_table("transcripts.json")["precedences"]
    cur = precedences(prog)
    tr = transcripts(prog)
    obs = []
    for ent in table:
        fname, h, A, B = ent["function"], ent["hash"], ent["first"], ent["then"]
        f = prog.functions.get(fname)
        if f is None:
            continue          # a static helper was renamed / inlined: its callers' transcripts carry the items; the floor decides
        oid = "R-ORD:%s:%s:%s<%s" % (fname, h.replace(" ", ""), A, B)
        text = "in the transcript absorbed into %s, %s must be hashed before %s" % (h, ent.get("first_name", A), ent.get("then_name", B))
        k = (fname, h, A, B)
        if k in cur:
            obs.append(Obligation("R-ORD", oid, cur[k][2], fname, text, True, "%s at %s precedes %s at %s" % (cur[k][0], cur[k][2], cur[k][1], cur[k][3])))
        else:
            ws = tr.get(fname, {}).get(h, [])
            have = {_pos_key(w[0]) for w in ws}
            if A not in have or B not in have:
                # the transcript changed shape (writes moved into a helper, item renamed): nothing to compare here;
                # the instance floor decides whether too many precedences vanished
                continue
            else:
                la = [w[3] for w in ws if _pos_key(w[0]) == A]
                lb = [w[3] for w in ws if _pos_key(w[0]) == B]
                obs.append(Obligation("R-ORD", oid, lb[0], fname, text, False,
                                      "order changed: %s is written at %s, %s at %s, and the first no longer precedes the second on every path"
                                      % (A, ", ".join(la), B, ", ".join(lb))))
    return obs, {"functions_with_transcripts": len(tr), "frozen_precedences": len(table)}


if __name__ == "__main__":
    import sys, json
    prog = program("K0")
    if len(sys.argv) > 1 and sys.argv[1] == "regen":
        cur = precedences(prog)
        ents = [{"function": k[0], "hash": k[1], "first": k[2], "then": k[3], "first_name": v[0], "then_name": v[1]} for k, v in sorted(cur.items())]
        json.dump({"_comment": "R-ORD: precedences between absorbed items that hold on the reviewed tree (python3 rules/r_ord.py regen).",
                   "precedences": ents}, open(os.path.join(VERIF, "tables", "transcripts.json"), "w"), indent=0)
        print(len(ents), "precedences in", len(transcripts(prog)), "functions")
    else:
        obs, st = obligations(prog)
        print(st)
        for o in obs:
            if not o.ok:
                print("VIOL", o.oid, o.loc, o.detail)
