"""R-LOOP — a loop that may run zero times keeps its test in front of the body.

For every natural loop of the library the rule looks at where the exit test sits: at the loop head (`for`, `while`: the body
is skipped when the count is zero) or only after the body (`do .. while`: the body runs once whatever the count).  A
tail-tested loop is fine when a dominating branch already makes a variable of its condition non-zero (`ARG_CHECK(n_total > n_inputs)`
in front of the do-while of secp256k1_pedersen_blind_generator_blind_sum).  Per (function, condition variables) the number of
loops that are safe for a zero count is frozen on the reviewed tree (tables/loop_sites.json, group semantics of the armed
rules): `for (i = 0; i < n; i++)` rewritten as `i = 0; do { .. } while (i < n);`, or `while (n--)` as
`do { n--; .. } while (n > 0);`, reads `blinds[0]` / `data[-33]` for the empty list.
"""
from sxlib import *
from core import Obligation, load_table, armed_group_obligations, props_of_function


_NEG = {"<": ">=", ">": "<=", "<=": ">", ">=": "<", "==": "!=", "!=": "=="}


def _positive(c, truth, cvars):
    """Does the branch condition c, taken with the given truth value, make a variable of cvars non-zero?"""
    from giv import Giv
    c = strip(c)
    while kind(c) == "un" and c[1] == "!":
        c = strip(c[2])
        truth = not truth
    if kind(c) == "bin" and c[1] in ("&&", "||"):
        if (c[1] == "&&") == truth:         # a && b taken true, a || b taken false: both sides decided
            return _positive(c[2], truth, cvars) or _positive(c[3], truth, cvars)
        return False
    if kind(c) == "bin" and c[1] in _NEG:
        op, L, R = c[1], c[2], c[3]
        if not truth:
            op = _NEG[op]
        kl, kr = Giv.key(L), Giv.key(R)
        if op == "!=":
            return (kl in cvars and is_int(R, 0)) or (kr in cvars and is_int(L, 0))
        if op == ">":
            return kl in cvars          # v > e with e of an unsigned / non-negative type: v >= 1
        if op == "<":
            return kr in cvars
        if op == ">=":
            return kl in cvars and (int_val(R) or 0) >= 1
        if op == "<=":
            return kr in cvars and (int_val(L) or 0) >= 1
        return False
    return truth and Giv.key(c) in cvars


def scan(prog):
    sites = []
    for f in sorted(prog.functions.values(), key=lambda x: x.name):
        if not f.blocks or not f.file.startswith("src/") or f.file.endswith("tests_impl.h") or \
                f.file.startswith(("src/bench", "src/tests", "src/testrand", "src/unit_test", "src/ctime", "src/precompute")):
            continue
        dom = f.dominators()
        heads = sorted({s for s in f.blocks for p in f.blocks[s].preds if p in dom and s in dom[p]})
        for h in heads:
            # natural loop of the back edges into h: h plus everything that reaches a latch without passing h
            latches = [p for p in f.blocks[h].preds if p in dom and h in dom[p]]
            body = {h}
            stack = [p for p in latches]
            while stack:
                x = stack.pop()
                if x in body:
                    continue
                body.add(x)
                stack.extend(q for q in f.blocks[x].preds if q is not None and q not in body)
            if latches and all(f.blocks[p].cond is not None and is_int(f.blocks[p].cond, 0) for p in latches):
                continue          # `do { .. } while (0)` of a macro: not a loop
            exits = [b for b in body if any(s is not None and s not in body for s in f.blocks[b].succs) and f.blocks[b].cond is not None]
            if not exits:
                continue
            # the head test sits in front of the body only when the head block holds nothing but its condition
            # (`while (n--)`, `for (..; i < n; ..)`); a do-while whose body starts with an `if (..) return` also has an
            # exiting head block, but the body statements run first
            hb = f.blocks[h]
            head_tested = h in exits and hb.cond is not None and all(any(el.e == x for x in walk(hb.cond)) for el in hb.elems)
            if head_tested:
                ctl = [h]
            else:
                # clang puts an empty loop-back block behind the do-while condition: step over it
                lt = []
                for p in latches:
                    while f.blocks[p].cond is None and not f.blocks[p].elems and len([q for q in f.blocks[p].preds if q is not None]) == 1:
                        p = [q for q in f.blocks[p].preds if q is not None][0]
                    lt.append(p)
                ctl = [p for p in lt if p in exits] or exits
            cvars = set()
            for b in ctl:
                cvars |= {v for v in vars_in(f.blocks[b].cond)}
            if not cvars:
                continue
            # do-while(0) of macros: constant condition, not a loop at all
            if all(is_int(f.blocks[b].cond) for b in exits):
                continue
            guarded = False
            if not head_tested:
                for d in dom.get(h, ()):
                    if d in body or f.blocks[d].cond is None:
                        continue
                    side = [i for i, sx in enumerate(f.blocks[d].succs) if sx is not None and (sx == h or sx in dom[h])]
                    if len(side) == 1 and _positive(f.blocks[d].cond, side[0] == 0, cvars):
                        guarded = True
            term = f.blocks[exits[0]].term or {}
            sites.append({"idbase": "R-LOOP:%s:zero-trip:%s" % (f.name, "+".join(sorted(cvars))[:60]), "fn": f.name,
                          "loc": term.get("loc", f.loc), "kind": "loop0",
                          "text": "the loop of %s controlled by %s must not run its body when the count is zero" % (f.name, ", ".join(sorted(cvars))),
                          "proved": bool(head_tested or guarded),
                          "detail": "tested at the loop head" if head_tested else ("tested after the body, but a dominating branch makes the count non-zero" if guarded
                                                                                   else "tested only after the body (do-while): the body runs once for a zero count"),
                          "props": props_of_function(f) | {"C07"}})
    return sites


def obligations(prog):
    tab = load_table("loop_sites.json")
    sites = scan(prog)
    obs = armed_group_obligations("R-LOOP", sites, tab["groups"], unproved=tab.get("unproved"))
    return obs, {"loops": len(sites), "tail_tested_unguarded": ["%s @%s" % (s["idbase"], s["loc"]) for s in sites if not s["proved"]][:30]}


if __name__ == "__main__":
    import sys
    import json
    sites = scan(program("K0"))
    if len(sys.argv) > 1 and sys.argv[1] == "regen":
        g, u = {}, {}
        for s in sites:
            d = g if s["proved"] else u
            d[s["idbase"]] = d.get(s["idbase"], 0) + 1
        json.dump({"_comment": "R-LOOP: per (function, condition variables) the number of loops that are safe for a zero count on the reviewed tree (python3 rules/r_loop.py regen).",
                   "groups": dict(sorted(g.items())), "unproved": {k: v for k, v in sorted(u.items()) if k in g}}, open(os.path.join(VERIF, "tables", "loop_sites.json"), "w"), indent=0)
        print("armed", sum(g.values()), "loops in", len(g), "groups;", sum(u.values()), "tail-tested unguarded")
    for s in sites:
        if not s["proved"]:
            print("TAIL", s["idbase"], s["loc"], s["detail"])
