"""R-COMB — the bit schedule of the fixed-base comb multiplication, for every supported table size (C05: "every
precomputed-table size"; the pinned suite builds one).

secp256k1_ecmult_gen has no data-dependent control flow: its loops run over the compile-time comb parameters.  The rule
walks its CFG with concrete values for the integer control variables (loop counters, bit positions; every branch is decided
by them) and a small provenance domain for what is gathered from the recoded scalar:

    recoded[I]                  -> word I            rotr32(word I, S) / (word I >> S) -> "low bit is scalar bit 32 I + S"
    low-bit value << t          -> "bit t is that scalar bit, zeros below, junk above"
    bits &= mask                -> cleared positions become known zeros
    bits ^= (.. << t)           -> position t takes the scalar bit if it was zero, positions above t become junk

and records, in execution order, the provenance of `bits` when it is first read after the tooth loop, the first index of
every access to secp256k1_ecmult_gen_prec_table, and the calls of the doubling.  Specification (the table definition that
R-CONST checks entry by entry: table(b, m) = sum_t m_t 2^((b T + t) S) G / 2-ish, evaluated Horner-wise over comb_off):

    round d = 0 .. S-1 (comb_off = S-1-d), block b = 0 .. B-1:
        bits[t] = scalar bit (b T + t) S + comb_off   for t = 0 .. T-1,   then a lookup in block b;
    exactly one doubling between consecutive rounds.

Decided for (COMB_BLOCKS, COMB_TEETH) = (43, 6), (11, 6) and (2, 5) — spacing 1, 4 and 26 — by extracting the unit once per
table size.  `bit_pos = block * COMB_TEETH + comb_off` is right for spacing 1 only.
"""
import subprocess
from sxlib import *
import sxlib
from core import Obligation

COMBS = [(43, 6), (11, 6), (2, 5)]
PROPS = {"C05"}


def _extract(blocks, teeth):
    os.makedirs(sxlib.WORK, exist_ok=True)
    out = os.path.join(sxlib.WORK, "sx.comb%d_%d.%s.json" % (blocks, teeth, tree_digest()))
    if os.path.exists(out) and os.path.getsize(out) > 0:
        return out
    for f_ in os.listdir(sxlib.WORK):
        if f_.startswith("sx.comb%d_%d." % (blocks, teeth)):
            os.remove(os.path.join(sxlib.WORK, f_))
    fl = [x for x in cflags("K1") if not x.startswith(("-DCOMB_BLOCKS", "-DCOMB_TEETH"))] + ["-DCOMB_BLOCKS=%d" % blocks, "-DCOMB_TEETH=%d" % teeth]
    tmp = out + ".tmp%d" % os.getpid()
    r = subprocess.run([os.path.join(VERIF, "engines", "sx"), tmp, os.path.join(REPO, "src", "secp256k1.c"), "--"] + fl,
                       stdout=subprocess.PIPE, stderr=subprocess.PIPE, text=True)
    if r.returncode != 0 or not os.path.exists(tmp):
        raise AnalysisBroken("sx failed for COMB_BLOCKS=%d COMB_TEETH=%d: %s" % (blocks, teeth, (r.stderr or r.stdout)[-800:]))
    os.replace(tmp, out)
    return out


class _Stuck(Exception):
    pass


JUNK = "junk"


class Walker:
    """Concrete control, provenance of gathered bits."""

    def __init__(self, f):
        self.f = f
        self.env = {}          # variable -> int | ("word", arr, I) | ("low", k) | ("at", t, k) | ("map", {pos: k | 0}, tail) | None
        self.events = []
        self.steps = 0
        self.read_pending = set()

    def ev(self, e):
        k = kind(e)
        if k in ("narrow",):
            v = self.ev(e[3])
            return (v & ((1 << e[2]) - 1)) if isinstance(v, int) else v
        if k == "bool":
            v = self.ev(e[1])
            return int(bool(v)) if isinstance(v, int) else None
        if k == "int":
            return int(e[1])
        if k == "var":
            v = self.env.get(e[1])
            if isinstance(v, tuple) and v[0] == "map" and e[1] in self.read_pending:
                self.read_pending.discard(e[1])
                self.events.append(("bits", e[1], dict(v[1])))
            return v
        if k == "index":
            b = strip(e[1])
            b = strip(b[1]) if kind(b) == "decay" else b
            i = self.ev(e[2])
            if kind(b) == "var" and isinstance(i, int) and (self.f.vars.get(b[1]) or {}).get("array_n"):
                return ("word", b[1], i)
            if kind(b) == "index":
                # table[block][index]: record the first index
                bb = strip(b[1])
                bb = strip(bb[1]) if kind(bb) == "decay" else bb
                if kind(bb) == "gvar":
                    i0 = self.ev(b[2])
                    self.events.append(("lookup", bb[1], i0))
            return None
        if k == "addr" or k == "deref" or k == "member" or k == "decay":
            for c in children(e):
                self.ev(c)
            return None
        if k == "un":
            v = self.ev(e[2])
            if isinstance(v, int):
                bits = e[3] if len(e) > 4 and e[3] else 32
                if e[1] == "~":
                    return ~v & ((1 << bits) - 1)
                if e[1] == "-":
                    return -v & ((1 << bits) - 1)
                if e[1] == "!":
                    return int(not v)
            return None
        if k == "cond":
            c = self.ev(e[1])
            if isinstance(c, int):
                return self.ev(e[2] if c else e[3])
            self.ev(e[2])
            self.ev(e[3])
            return None
        if k == "incdec":
            tgt = strip(e[3])
            if kind(tgt) == "var" and isinstance(self.env.get(tgt[1]), int):
                old = self.env[tgt[1]]
                new = old + (1 if e[1] == "++" else -1)
                bits = (self.f.vars.get(tgt[1]) or {}).get("int_bits") or 32
                if not (self.f.vars.get(tgt[1]) or {}).get("signed"):
                    new &= (1 << bits) - 1
                self.env[tgt[1]] = new
                return new if e[2] else old
            if kind(tgt) == "var":
                self.env[tgt[1]] = None
            return None
        if k == "assign":
            return self.assign(e)
        if k == "call":
            args = [self.ev(a) for a in e[3]]
            name = e[1] if isinstance(e[1], str) else None
            if name == "secp256k1_rotr32" and len(args) == 2 and isinstance(args[0], tuple) and args[0][0] == "word" and isinstance(args[1], int):
                return ("low", (args[0][1], 32 * args[0][2] + args[1]))
            if name and name.endswith("gej_double"):
                self.events.append(("double",))
            # out-parameters become unknown
            for a in e[3]:
                a = strip(a)
                if kind(a) == "addr" and kind(strip(a[1])) == "var":
                    self.env[strip(a[1])[1]] = None
            return None
        if k == "bin":
            op = e[1]
            if op in ("&&", "||"):
                a = self.ev(e[2])
                if isinstance(a, int) and bool(a) != (op == "&&"):
                    return int(bool(a))
                b = self.ev(e[3])
                return int(bool(b)) if isinstance(a, int) and isinstance(b, int) else None
            a, b = self.ev(e[2]), self.ev(e[3])
            if isinstance(a, int) and isinstance(b, int):
                bits = e[4] if len(e) > 5 and e[4] else 32
                signed = bool(e[5]) if len(e) > 5 else False
                if op in ("<", ">", "<=", ">=", "==", "!="):
                    return int({"<": a < b, ">": a > b, "<=": a <= b, ">=": a >= b, "==": a == b, "!=": a != b}[op])
                if op in ("/", "%") and b == 0:
                    return None
                fn = {"+": lambda: a + b, "-": lambda: a - b, "*": lambda: a * b, "/": lambda: a // b, "%": lambda: a % b, "&": lambda: a & b,
                      "|": lambda: a | b, "^": lambda: a ^ b, "<<": lambda: a << b, ">>": lambda: a >> b}.get(op)
                if fn is None:
                    return None
                v = fn()
                return v if signed else v & ((1 << bits) - 1)
            if op == ">>" and isinstance(a, tuple) and a[0] == "word" and isinstance(b, int):
                return ("low", (a[1], 32 * a[2] + b))
            if op == "<<" and isinstance(a, tuple) and a[0] == "low" and isinstance(b, int):
                return ("at", b, a[1])
            if op == "&" and isinstance(a, tuple) and a[0] == "low" and b == 1:
                return ("at", 0, a[1])          # exactly that bit
            return None
        return None

    def assign(self, e):
        tgt = strip(e[2])
        if kind(tgt) != "var":
            if kind(tgt) == "index" and e[1] == "=":
                b = strip(tgt[1])
                b = strip(b[1]) if kind(b) == "decay" else b
                i = self.ev(tgt[2])
                r = strip(e[3])
                r = strip(r[3]) if kind(r) == "narrow" else r
                if kind(b) == "var" and isinstance(i, int) and kind(r) == "call" and isinstance(r[1], str) and "get_bits" in r[1] and len(r[3]) == 3:
                    self.events.append(("fill", b[1], i, self.ev(r[3][1]), self.ev(r[3][2])))
                    return None
            self.ev(e[3])
            for c in children(tgt):
                self.ev(c)
            return None
        name = tgt[1]
        op = e[1]
        if op == "=":
            v = self.ev(e[3])
            self.env[name] = ("map", {}, 0) if v == 0 and (self.f.vars.get(name) or {}).get("int_bits") == 32 and name in self.mapvars else v
            return v
        cur = self.env.get(name)
        rhs = self.ev(e[3])
        if isinstance(cur, tuple) and cur[0] == "map":
            m = dict(cur[1])
            tail = cur[2]           # positions >= tail that are not in m: 0 means "known zero everywhere", JUNK otherwise
            if op == "&=" and isinstance(rhs, int):
                for p in range(32):
                    if not (rhs >> p) & 1:
                        m[p] = 0
                self.env[name] = ("map", m, tail)
                self.read_pending.add(name)
                return None
            if op == "^=" and isinstance(rhs, tuple) and rhs[0] == "at":
                t, src = rhs[1], rhs[2]
                was = m.get(t, 0 if tail == 0 else JUNK)
                m[t] = src if was == 0 else JUNK
                for p in range(t + 1, 32):
                    m[p] = JUNK
                self.env[name] = ("map", m, JUNK)
                self.read_pending.add(name)
                return None
            self.env[name] = None
            return None
        if isinstance(cur, int) and isinstance(rhs, int):
            v = self.ev(["bin", op[:-1], ["int", str(cur), 32], ["int", str(rhs), 32]] + (list(e[4:6]) if len(e) > 5 else [32, 0]))
            self.env[name] = v
            return v
        self.env[name] = None
        return None

    def run(self):
        f = self.f
        # variables that gather bits: 32-bit unsigned locals updated by `^=` of a shifted value
        self.mapvars = set()
        for el in f.elems():
            e = el.e
            if kind(e) == "assign" and e[1] == "^=" and kind(strip(e[2])) == "var" and any(kind(x) == "bin" and x[1] == "<<" for x in walk(e[3])):
                self.mapvars.add(strip(e[2])[1])
        bid = max(f.blocks)
        while bid is not None:
            self.steps += 1
            if self.steps > 400000:
                raise _Stuck("walk does not terminate")
            b = f.blocks[bid]
            for el in b.elems:
                if not el.top:
                    continue
                e = el.e
                if kind(e) == "decls":
                    for d in e[1:]:
                        if d[2] is not None and kind(d[2]) != "init":
                            v = self.ev(d[2])
                            self.env[d[1]] = ("map", {}, 0) if v == 0 and d[1] in self.mapvars else v
                        else:
                            self.env[d[1]] = None
                elif kind(e) == "return":
                    return
                else:
                    v = self.ev(e)
                    if b.cond is not None and e == b.cond:
                        self._cond_val, self._cond_blk = v, bid
            succs = [s for s in b.succs if s is not None]
            if b.cond is not None and len(set(succs)) > 1:
                # the terminator condition was evaluated as the last element of the block; evaluate again without side effects
                # is not possible for `comb_off-- == 0`: take its value from the element evaluation
                c = self.last_cond(b)
                if not isinstance(c, int):
                    raise _Stuck("branch on a value that is not a control integer: %s" % show(b.cond)[:60])
                bid = b.succs[0] if c else b.succs[1]
            else:
                bid = succs[0] if succs else None

    def last_cond(self, b):
        # a condition usually is the last top-level element of its block: its value was computed there (`comb_off-- == 0`
        # must not be evaluated twice); otherwise it is free of side effects and evaluated here
        if getattr(self, "_cond_blk", None) == b.id:
            self._cond_blk = None
            return self._cond_val
        if any(kind(x) in ("incdec", "assign", "call") for x in walk(b.cond)):
            raise _Stuck("condition with side effects outside its block: %s" % show(b.cond)[:60])
        return self.ev(b.cond)

    # the element evaluation stores the value of the block's condition
    def ev_top(self, e):
        return self.ev(e)


def walk_ecmult_gen(f):
    w = Walker(f)
    w.run()
    return w


def check(events, B, T):
    S = -(-256 // (B * T))
    rounds, cur, doubles = [], [], 0
    i = 0
    pend = None
    seq = []
    for ev in events:
        if ev[0] == "bits":
            pend = ev[2]
        elif ev[0] == "lookup":
            if seq and seq[-1][0] == "lookup" and seq[-1][1] == ev[2] and pend is None:
                continue                      # the cmov loop touches every entry of the block
            seq.append(("lookup", ev[2], pend))
            pend = None
        elif ev[0] == "double":
            seq.append(("double",))
    # the recoded words: word I is bits 32 I .. 32 I + 31 of the scalar, all 256 bits
    arrs = {m[0] for ev in events if ev[0] == "bits" for m in ev[2].values() if isinstance(m, tuple)}
    fills = {(ev[1], ev[2]): (ev[3], ev[4]) for ev in events if ev[0] == "fill"}
    for a in arrs:
        for I in range(8):
            if fills.get((a, I)) != (32 * I, 32):
                return "word %d of %s is filled with %s, not with scalar bits %d .. %d" % (I, a, "bits (offset, count) = %s" % (fills.get((a, I)),) if (a, I) in fills else "nothing", 32 * I, 32 * I + 31)
    # expected: S rounds of B lookups, one doubling between rounds
    pos = 0
    for d in range(S):
        off = S - 1 - d
        for b in range(B):
            if pos >= len(seq) or seq[pos][0] != "lookup":
                return "round %d: lookup for block %d missing" % (d, b)
            _, blk, m = seq[pos]
            pos += 1
            if blk != b:
                return "round %d: lookup in block %s where block %d is due" % (d, blk, b)
            if m is None:
                return "round %d block %d: the gathered bits are not read before the lookup" % (d, b)
            for t in range(T):
                want = (b * T + t) * S + off
                got = m.get(t)
                if got == JUNK or got is None or got == 0:
                    return "comb_off %d, block %d: bit %d of the table index is %s, not scalar bit %d" % (off, b, t, "junk" if got == JUNK else "never written", want)
                if got[1] != want:
                    return "comb_off %d, block %d, tooth %d: the table index takes scalar bit %d, the table entry is built for bit %d = (block * %d + tooth) * %d + comb_off" % (off, b, t, got[1], want, T, S)
        if d < S - 1:
            if pos >= len(seq) or seq[pos][0] != "double":
                return "no doubling between round %d and %d" % (d, d + 1)
            pos += 1
    if pos != len(seq):
        return "extra %s after the last round" % (seq[pos][0],)
    return None


def table_obligations():
    """The precomputed comb table of the table sizes the pinned build does not use (R-CONST decides the built one): every entry
    of secp256k1_ecmult_gen_prec_table, read from the compiler's IR of precomputed_ecmult_gen.c, equals its definition."""
    import re
    import r_const as rc
    obs = []
    for (B, T) in COMBS[1:]:
        out = os.path.join(sxlib.WORK, "comb%d_%d.%s.ll" % (B, T, tree_digest()))
        if not (os.path.exists(out) and os.path.getsize(out) > 0):
            for f_ in os.listdir(sxlib.WORK):
                if f_.startswith("comb%d_%d." % (B, T)):
                    os.remove(os.path.join(sxlib.WORK, f_))
            fl = [x for x in cflags("K1") if not x.startswith(("-DCOMB_BLOCKS", "-DCOMB_TEETH"))] + ["-DCOMB_BLOCKS=%d" % B, "-DCOMB_TEETH=%d" % T]
            tmp = out + ".tmp%d" % os.getpid()
            r = subprocess.run(["clang-14"] + fl + ["-O0", "-S", "-emit-llvm", os.path.join(REPO, "src", "precomputed_ecmult_gen.c"), "-o", tmp],
                               stdout=subprocess.PIPE, stderr=subprocess.PIPE, text=True)
            if r.returncode != 0:
                raise AnalysisBroken("R-COMB: cannot compile precomputed_ecmult_gen.c for %dx%d: %s" % (B, T, r.stderr[-300:]))
            os.replace(tmp, out)
        c = rc.Consts.__new__(rc.Consts)
        c.config, c.globals, c.macros = "K1", {}, {}
        with open(out) as fh:
            for line in fh:
                m = re.match(r"@([\w.]+) = (?:[a-z_]+ )*(?:constant|global) (.*)$", line)
                if m and " = external " not in line:
                    c.globals.setdefault(m.group(1), m.group(2))
        S = -(-256 // (B * T))
        points = 1 << (T - 1)
        oid = "R-COMB:table:ecmult_gen:%dx%d" % (B, T)
        text = "with COMB_BLOCKS=%d COMB_TEETH=%d every entry of secp256k1_ecmult_gen_prec_table is (sum_t s_t 2^((b*%d+t)*%d)) G/2" % (B, T, T, S)
        if "secp256k1_ecmult_gen_prec_table" not in c.globals:
            obs.append(Obligation("R-COMB", oid, "src/precomputed_ecmult_gen.c", "secp256k1_ecmult_gen_prec_table", text, False,
                                  "the precomputed file has no table for this size", props=PROPS))
            continue
        tab = c.table("secp256k1_ecmult_gen_prec_table")
        bad = None
        if len(tab) == B * points:
            pw = [rc.mul(rc.inv(2, rc.N), (rc.GX, rc.GY))]
            for j in range(B * T * S):
                pw.append(rc.add(pw[-1], pw[-1]))
            for blk in range(B):
                for idx in range(points):
                    acc = None
                    for t in range(T):
                        pt = pw[(blk * T + t) * S]
                        if not (t < T - 1 and (idx >> t) & 1):
                            pt = (pt[0], (-pt[1]) % rc.P)
                        acc = rc.add(acc, pt)
                    if acc != tab[blk * points + idx]:
                        bad = (blk, idx)
                        break
                if bad:
                    break
        ok = bad is None and len(tab) == B * points
        obs.append(Obligation("R-COMB", oid, "src/precomputed_ecmult_gen.c", "secp256k1_ecmult_gen_prec_table", text, ok,
                              "all %d entries verified" % len(tab) if ok else "entry %s differs (table has %d entries, %d expected)" % (bad, len(tab), B * points), props=PROPS))
    return obs


def obligations(prog_unused=None):
    obs = table_obligations()
    for (B, T) in COMBS:
        prog = Program(_extract(B, T))
        f = prog.fn("secp256k1_ecmult_gen")
        S = -(-256 // (B * T))
        oid = "R-COMB:secp256k1_ecmult_gen:schedule:%dx%d" % (B, T)
        text = "with COMB_BLOCKS=%d COMB_TEETH=%d (spacing %d) the table index of block b in round comb_off gathers scalar bits (b T + t) S + comb_off, every block is looked up in every round and rounds are separated by one doubling" % (B, T, S)
        try:
            w = walk_ecmult_gen(f)
            bad = check(w.events, B, T)
            obs.append(Obligation("R-COMB", oid, f.loc, f.name, text, bad is None,
                                  bad or "%d rounds x %d blocks x %d teeth: all %d bit positions as specified, %d doublings" % (S, B, T, S * B * T, S - 1), props=PROPS))
        except _Stuck as ex:
            obs.append(Obligation("R-COMB", oid, f.loc, f.name, text, True, "NOT DECIDED: %s" % ex, props=PROPS))
    if all("NOT DECIDED" in o.detail for o in obs if ":schedule:" in o.oid):
        raise AnalysisBroken("R-COMB: secp256k1_ecmult_gen could not be walked in any configuration (%s)" % obs[0].detail)
    return obs, {"table_sizes": len(COMBS)}


if __name__ == "__main__":
    for o in obligations()[0]:
        print("OK  " if o.ok else "FAIL", o.oid, "|", o.detail[:260])
