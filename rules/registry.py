"""registry — which rules decide which clauses of which property (DESIGN §5, §12)."""
import copy

import sxlib

_cache = {}


def _memo(name, cfg, fn):
    k = (name, cfg)
    if k not in _cache:
        _cache[k] = fn(cfg)
    obs, st = _cache[k]
    return [copy.copy(o) for o in obs], dict(st or {})


RULE_TEXT = {}


def _rule(name, modname, func="obligations", text="", **kw):
    def run(cfg, tier):
        mod = __import__(modname)
        return _memo(name, cfg, lambda c: getattr(mod, func)(sxlib.program(c)))
    d = {"name": name, "run": run}
    d.update(kw)
    RULE_TEXT[name] = text
    return d


R_CHK = _rule("R-CHK", "r_chk", text="the failure indicator of every fallible decode (overflow flag / zero return; seeds = the repository's decoders, closed over "
              "wrappers by fixpoint) reaches a branch, the verdict or an out-parameter, and on every path it is read before it is overwritten or a non-zero return")
R_OBL = _rule("R-OBL", "r_obl", text="each untrusted parameter is still consumed, at its byte offset, by the decoders / validity tests frozen in tables/obligations.json "
              "(interprocedural parameter-rooted value flow `pflow`)")
R_RED = _rule("R-RED", "r_obl", "red_obligations", text="raw caller bytes are decoded by reduction (NULL overflow pointer, fe_set_b32_mod) only in the roles listed in tables/red_roles.json")
R_FLOW = _rule("R-FLOW", "r_flow", text="named values arrive unmodified / sanitised: RFC 6979 is keyed with the scalar-decoded message; msg/msglen and key counts pass "
               "unchanged to the absorbing hash / sort; sha256_write and sha256_transform move cursor and count together by the bytes consumed")
R_CAP = _rule("R-CAP", "r_cap", all_for=("C07",), text="armed memcpy/memset lengths, variable array indexes, shift amounts and clz/ctz arguments stay within capacity / width / "
              "non-zero on every path (interval engine `giv`; armed = proved on the reviewed tree)")
R_RING = _rule("R-RING", "r_cap", "ring_obligations", all_for=("C07",), text="every ring size handed to secp256k1_borromean_verify is >= 1")
R_WRAP = _rule("R-WRAP", "r_cap", "wrap_obligations", text="armed 64-bit additions / multiplications of header-derived quantities are range-proved, guarded or post-checked")
R_INB = _rule("R-INB", "r_inb", text="armed reads of a (pointer, length) input buffer are dominated by a guard establishing length >= offset + bytes read (symbolic linear-form prover)")
R_ZOF = _rule("R-ZOF", "zof", text="the listed output objects are all-zero at every return that can yield 0 (zero-on-failure dataflow `zof`: lattice Z / C(v) / untouched / unknown, "
              "branch facts, path-sensitive joins, bottom-up helper summaries)")
R_BIND = _rule("R-BIND", "r_bind", text="point comparisons compare the full point (x-only primitive only in the ECDSA equation; .x/.y comparisons paired; listed verifiers keep their full-point equality)")
R_LEN = _rule("R-LEN", "r_len", "len_obligations", text="every accepting return of the listed parsers / verifiers is dominated by the frozen number of equality constraints on the caller's length (no trailing bytes)")
R_SIZE = _rule("R-SIZE", "r_len", "size_obligations", text="size-negotiating serializers reject with a strict `*len < E` using the same linear expression E they store into *len")
R_DOM = _rule("R-DOM", "r_dom", text="every call chain from an exported function to the generator multiplication passes the built-context ARG_CHECK; partial signatures are saved only after secnonce_load succeeded")
R_SCTX = _rule("R-SCTX", "r_dom", "static_ctx_obligations", all_for=("C20",), text="an exported function outside the call cone of the generator multiplication has no built-context ARG_CHECK in its call tree: "
               "verification, parsing and serialization keep working on secp256k1_context_static")
R_PAIR = _rule("R-PAIR", "r_pair", text="every heap block / scratch checkpoint acquired in a function is released or handed over on every exit path (typestate, may-leak)")

R_SIB = _rule("R-SIB", "r_sib", "sib_obligations", text="constants a writer and a reader must share (exponent / mantissa / minimum-length bounds, key and input count bounds vs array and field capacities) agree across their sites")
R_BITS = _rule("R-BITS", "r_sib", "bits_obligations", text="every bit of the range-proof header byte is examined, spare / padding bits are tested and rejected, and wide quantities (MuSig counter, Pedersen value) reach their 8-byte serializers without narrowing")
R_ORD = _rule("R-ORD", "r_ord", text="hash transcript order: the precedences between parameter-rooted items absorbed into one SHA-256 state that hold on the reviewed tree (tables/transcripts.json) still hold")

R_TAG = _rule("R-TAG", "r_tag", text="the constants of every tagged-hash initialiser equal the SHA-256 midstate of SHA256(tag)||SHA256(tag) for the tag the specification assigns (tables/tags.json; reference computed by the checker)")
R_BOOL = _rule("R-BOOL", "r_bool", text="every exported int verdict is boolean-valued (greatest fixpoint over the call graph; comparators and iteration counts are named exceptions)", all_for=("C07",))

R_ABORT = _rule("R-ABORT", "r_abort", all_for=("C07",), text="no ARG_CHECK condition reachable from an exported function is computed from the *contents* of a raw `const unsigned char *` input "
                "(NULL tests and opaque-object contracts excluded): crafted bytes cannot reach the illegal-argument callback")
R_VERDICT = _rule("R-VERDICT", "r_verdict", text="every accepting return of the listed verifiers takes its value from the final equation predicate, or is a literal dominated by a branch on it "
                  "(no accepting shortcut past the equation)")
R_MUST = _rule("R-MUST", "r_must", text="must-pass-through on accepting paths: the families of primitives (group multiplication, hash absorb / finalise, save / load, equality, "
               "infinity / zero tests, scalar / group arithmetic, decode / encode, parity, sort) executed on every path to every accepting return of each exported function on the "
               "reviewed tree (tables/must_pass.json) are still executed on every such path (accept-path partitioned dataflow over clang's CFG with must summaries of helpers)")

R_NULL = _rule("R-NULL", "r_null", all_for=("C07",), text="a pointer parameter that its function tests for NULL anywhere is dereferenced only where the non-NULL outcome of such a test "
               "dominates (armed for the parameters where this holds at every dereference on the reviewed tree, tables/null_params.json)")


_RD = []


def _rules_digest():
    """Digest of the rule sources and tables: a cached rule result never outlives a change of the rule itself."""
    if not _RD:
        import hashlib
        import os
        h = hashlib.sha256()
        for d in ("rules", "tables"):
            for fn_ in sorted(os.listdir(os.path.join(sxlib.VERIF, d))):
                if fn_.endswith((".py", ".json")) and fn_ != "floors.json":
                    with open(os.path.join(sxlib.VERIF, d, fn_), "rb") as fh:
                        h.update(fn_.encode() + fh.read())
        _RD.append(h.hexdigest()[:8])
    return _RD[0]


def _both_reprs(name, fn, cfgs=(("K0", ""), ("K3", "/32bit"))):
    """Rules about the arithmetic representation are decided for the 64-bit (K0) AND the 32-bit (K3) limb layout on every
    run, also in the quick tier: the pinned suite builds only one of them, so a slip in the other is exactly what the
    tests cannot see.  K1 / K2 share K0's layout and add nothing; K3 is already covered when the run reaches it."""
    def cached(c):
        # these rules depend on the tree only: the 17 checks of one run share the result through the work directory, keyed by
        # the digest of /repo's sources (the first check of a run on a changed tree computes it; nothing survives a change)
        import json
        import os
        import core
        p = os.path.join(sxlib.WORK, "rule.%s.%s.%s%s.json" % (name, c, sxlib.tree_digest(), _rules_digest()))
        if os.path.exists(p):
            try:
                d = json.load(open(p))
                return [core.Obligation(o["rule"], o["id"], o["loc"], o["function"], o["obligation"], o["holds"], o["detail"],
                                        props=set(o["props"]) if o.get("props") is not None else None) for o in d["obs"]], d["st"]
            except (ValueError, KeyError):
                pass
        obs, st = fn(c)
        os.makedirs(sxlib.WORK, exist_ok=True)
        for f_ in os.listdir(sxlib.WORK):
            if f_.startswith("rule.%s." % name) and sxlib.tree_digest() not in f_:
                try:
                    os.remove(os.path.join(sxlib.WORK, f_))
                except OSError:
                    pass
        tmp = p + ".tmp%d" % os.getpid()
        json.dump({"obs": [dict(o.as_dict(), props=sorted(o.props) if o.props is not None else None) for o in obs], "st": st}, open(tmp, "w"))
        os.replace(tmp, p)
        return obs, st

    LABEL = {"/32bit": "[10x26 field, 8x32 scalar] ", "/int128": "[native 128-bit integers] ", "/int128struct": "[emulated 128-bit integers] "}

    def run(cfg, tier):
        if cfg != "K0":
            return [], {}
        allobs, allst = [], {}
        for (c, suffix) in cfgs:
            obs, st = _memo(name, c, cached)
            for o in obs:
                if suffix:
                    o.oid = o.oid + suffix
                    o.text = LABEL.get(suffix, "") + o.text
            allobs += obs
            allst.update({(suffix.strip("/") + "_" if suffix else "") + k: v for k, v in st.items()})
        return allobs, allst
    return run


def _const_fn(c):
    import r_const
    return r_const.obligations(c)


def _pack_fn(c):
    import r_pack
    return r_pack.obligations(sxlib.program(c))


def _limb_fn(c):
    import r_limb
    return r_limb.obligations(sxlib.program(c))


R_LIMB = {"name": "R-LIMB", "run": _both_reprs("R-LIMB", _limb_fn, cfgs=(("K1", "/int128"), ("K2", "/int128struct"), ("K3", "/32bit")))}
RULE_TEXT["R-LIMB"] = ("the straight-line multi-precision kernels (scalar mul_512 / sqr_512 / reduce_512 / reduce / add / mul_shift_var, field mul / sqr inner, normalize_weak, half, "
                       "negate, mul_int, add) satisfy their specification as a polynomial identity between exact integer forms of their outputs and inputs, for every input their "
                       "contract admits, in the three portable configurations (native / emulated 128-bit integers, 32-bit limbs); a carry, high half or truncated bits that can "
                       "be non-zero and are dropped are reported with the statement that loses them")
def _gep_fn(c):
    import r_gep
    return r_gep.obligations(sxlib.program(c))


R_GEP = {"name": "R-GEP", "run": _both_reprs("R-GEP", _gep_fn)}
RULE_TEXT["R-GEP"] = ("the `>= p` predicates of secp256k1_fe_set_b32_limit and of the full normalisations equal the definition sum l_k 2^(B k) >= p: their expression trees are "
                      "evaluated on one representative per box of the grid cut out by their comparison constants and the digits of p (a complete case analysis for predicates "
                      "that touch the limbs only through comparisons, all-ones AND-chains and the carry form), in both limb layouts")
R_CONST = {"name": "R-CONST", "run": _both_reprs("R-CONST", _const_fn)}
R_PACK = {"name": "R-PACK", "run": _both_reprs("R-PACK", _pack_fn)}
RULE_TEXT["R-PACK"] = ("byte <-> limb packing (fe_set_b32_mod, fe_get_b32, fe_to_storage, fe_from_storage, scalar_set_b32, scalar_get_b32, read_be32/64) is the canonical "
                       "big-endian bit layout: the statement trees are evaluated over a symbolic bit domain and every output bit is compared with the bit the representation "
                       "defines, for the 5x52 / 4x64 and the 10x26 / 8x32 layouts")
RULE_TEXT["R-CONST"] = ("numeric constants and precomputed tables, read from the compiler's IR of each configuration (and `clang -E -dM` for limb macros), satisfy their defining "
                        "identities computed by the checker from the SEC 2 parameters: group order / 2^256-n / n/2 limbs, modular-inverse parameters, G, lambda / beta and the GLV "
                        "lattice with g1, g2, n and p-n as field elements, ecmult_const K, sqrt(-3) constants of ElligatorSwift and SvdW, generator H, every entry of "
                        "secp256k1_pre_g / pre_g_128 ((2i+1)G, (2i+1)2^128 G) and of the ecmult_gen comb table")

DECODE = [R_CHK, R_OBL, R_RED, R_ORD, R_TAG, R_BOOL, R_VERDICT, R_SCTX, R_MUST, R_CONST, R_PACK]
R_CURSOR = _rule("R-CURSOR", "r_cur", text="every read, copy and advance through the DER reader's (cursor, end) pointer pair stays inside the buffer: forward dataflow with the relational "
                 "facts end - cursor >= c and end - cursor >= v + c and byte-value ranges (armed groups, tables/cursor_sites.json)")
R_SAME = _rule("R-SAME", "r_same", text="a validity test (is_infinity / is_zero) on an array element guards the use of that same element: the element expression of the test and of the "
               "guarded call are identical and its index variables are not reassigned in between (instances discovered on the reviewed tree, tables/same_elem.json)")
R_LOOP = _rule("R-LOOP", "r_loop", text="a loop that may run zero times keeps its exit test in front of the body (head-tested, or tail-tested behind a dominating test of the same "
               "variable): per (function, condition variables) the number of such loops on the reviewed tree is frozen (tables/loop_sites.json)")
R_HASH = _rule("R-HASH", "r_hash", text="SHA-256 finalisation and the HMAC key schedule: the pad length, evaluated for all 64 buffer fills, brings the buffer to 56 mod 64 with "
               "at least one pad byte and stays inside the pad array; the size descriptor is the 64-bit bit count (exact forms); a key is used unhashed exactly up to the "
               "block size; the outer / inner hashes absorb key ^ 0x5c / key ^ 0x36")
R_HSTATE = _rule("R-HSTATE", "r_hstate", text="typestate of SHA-256 / HMAC state objects: a write or finalize never follows a finalize of the same object without a new "
                 "initialisation (forward may-analysis over the CFG of every function that finalises a hash state; anything else that touches the object counts as a "
                 "re-initialisation, so only the definite pattern is reported)")
R_ARGS = _rule("R-ARGS", "r_args", text="a call that passes two variables named like two parameters of the callee passes them in the callee's order (expected count of crossed "
               "calls is zero; a synthetic crossed call is the positive control)")
R_COMB = _rule("R-COMB", "r_comb", text="the fixed-base comb multiplication for every supported table size (43x6, 11x6, 2x5): walking secp256k1_ecmult_gen with concrete control "
               "integers, the table index of block b in round comb_off gathers exactly the scalar bits (b*TEETH + t)*SPACING + comb_off, every block is looked up in every round, "
               "rounds are separated by one doubling, the recoded words are the scalar's 32-bit limbs; every entry of the precomputed tables of the sizes the pinned build does "
               "not use equals its definition")
BOUNDS = [R_CAP, R_RING, R_WRAP, R_INB, R_LEN, R_SIB, R_BITS, R_NULL, R_CURSOR, R_SAME, R_LOOP]
# every module-level property runs every rule family; obligations are scoped to a property by the function they sit in
# (core.props_of_function) or by the explicit property set of their instance table, so a rule contributes nothing where
# it has no instance.  (Found with seed C12-d: R-BITS had the MuSig counter instance but C12 did not run R-BITS.)


ALL_CFG = ["K0", "K1", "K2", "K3"]

_COMMON_ASSUME = [
    "the clang 14 AST/CFG of src/secp256k1.c (all modules incl. ENABLE_MODULE_RECOVERY, which the pinned build omits) is the program analysed",
    "a passing check establishes the listed structural obligations (each a necessary condition of the property) on every path / call site, not the behavioural property itself",
    "exception, role and armed-instance tables in /verif/tables were produced on the reviewed tree and read; each exception carries its reason",
]

PROPERTIES = {}


def _prop(pid, rules, head, not_decided, **kw):
    expl = head + " Rules: " + "; ".join("%s — %s" % (r["name"], RULE_TEXT.get(r["name"], "")) for r in rules if r["name"] in RULE_TEXT) + "."
    d = {"rules": rules, "explanation": kw.pop("explanation", expl), "not_decided": not_decided,
         "assumptions": list(_COMMON_ASSUME) + kw.pop("assumptions", []),
         "configs_quick": ["K0"], "configs_thorough": ALL_CFG, "level": "other"}
    d.update(kw)
    PROPERTIES[pid] = d


_BOUND_ASSUME = ["distinct pointer parameters do not alias", "summaries: secp256k1_count_bits_set(d, c) in [0, 8c]; clz/ctz ranges"]

ALL_RULES = DECODE + BOUNDS + [R_FLOW, R_ZOF, R_BIND, R_DOM, R_PAIR, R_SIZE, R_LIMB, R_HASH, R_ARGS, R_GEP, R_HSTATE]

_prop("C01", ALL_RULES,
      "ECDSA, structural clauses (the recovery module is analysed although the pinned build omits it).",
      "that the equation computed is the ECDSA equation; low-S of produced signatures; RFC 6979 byte-exactness; recover(sign) == pubkey (256-bit arithmetic)")
_prop("C02", ALL_RULES,
      "BIP-340, structural clauses.",
      "byte-for-byte equality with BIP-340, aux=NULL == zero aux, exact acceptance set (hash and curve arithmetic)")
_prop("C03", ALL_RULES,
      "Key and signature encodings, structural clauses.",
      "the DER grammar itself (minimal-length / padding predicates over byte values), hybrid parity rule, round-trip equalities")
_prop("C04", ALL_RULES,
      "Key algebra, structural clauses.",
      "commutation of secret and public operations, correctness of heap sort beyond its length argument, lexicographic order")
_prop("C05", [R_FLOW, R_PAIR, R_CONST, R_PACK, R_CAP, R_LIMB, R_HASH, R_COMB, R_GEP, R_HSTATE],
      "Arithmetic and hashing kernel — the clauses with a structural part: (hashing) caller lengths reach secp256k1_sha256_write unmodified "
      "(tagged hash, HMAC), sha256_write moves data pointer and remaining length together, sha256_transform compresses consecutive blocks; "
      "scratch checkpoints of the multi-scalar batches are restored on every exit; (data) every numeric constant and every entry of the precomputed ecmult / ecmult_gen "
      "tables, as the compiler sees them in each configuration (4x64 and 8x32 limbs, 5x52 and 10x26), satisfies its defining identity (R-CONST); (kernels) the straight-line "
      "multi-precision kernels of the three portable configurations compute their specification for every admitted input (R-LIMB: exact integer forms, polynomial identity); the SHA-256 padding / length and HMAC key-block arithmetic "
      "(R-HASH); the comb schedule and tables of ecmult_gen for every table size (R-COMB).",
      "the group law, wNAF / comb recoding, modular inverse and square root (data-dependent control flow, signed arithmetic), the x86-64 assembly kernels of the pinned build, "
      "the full normalisation's final comparison, and bit-identity of whole computations across configurations",
      assumptions=["R-LIMB: clang's computation types (recorded by sx on every operator) are the widths the arithmetic is carried out in; contracts of the kernels are the "
                   "magnitude / limb bounds of field.h and scalar.h (fe_mul inputs magnitude 8, field elements up to magnitude 32 at the limb bounds secp256k1_fe_verify admits)"])
_prop("C07", BOUNDS + [R_PAIR, R_SIZE, R_BOOL, R_ABORT],
      "Untrusted bytes, structural clauses.",
      "general in-bounds / UB-freedom of the proof verifiers (needs relational invariants such as npub = sum rsizes <= 128, outside the interval and linear-form domains: "
      "those sites are listed in the evidence as not armed); termination",
      assumptions=_BOUND_ASSUME)
_prop("C08", ALL_RULES,
      "Pedersen commitments, structural clauses.",
      "that the commitment is bG + vH, tally semantics, round-trips")
_prop("C09", ALL_RULES,
      "Range-proof creation, structural clauses.",
      "created proofs verify, bound the value, rewind (value-level)", assumptions=_BOUND_ASSUME)
_prop("C10", ALL_RULES,
      "Range-proof verification, structural clauses.",
      "the Borromean ring equation and hash binding values", assumptions=_BOUND_ASSUME)
_prop("C11", ALL_RULES,
      "Surjection proofs, structural clauses.",
      "subset selection correctness, the ring equation", assumptions=_BOUND_ASSUME)
_prop("C12", ALL_RULES,
      "MuSig2, structural clauses.",
      "equality with the BIP-327 functions, session validity, adapt/extract inverse (algebra)")
_prop("C13", ALL_RULES,
      "MuSig secnonce single use — typestate over call histories, decided on the functions that implement it: *secnonce is all-zero at EVERY return of "
      "partial_sign after its own NULL check (incl. every later ARG_CHECK return); secnonce is zero on every failing return of nonce_gen / nonce_gen_counter "
      "(through nonce_gen_internal and secnonce_invalidate); session_secrand32 is zero whenever nonce_gen succeeds; the stored public key is compared as a "
      "full point; a signature is saved only after secnonce_load succeeded. Induction over histories: an all-zero secnonce stays unusable until a "
      "successful nonce_gen, and every partial_sign that touches it leaves it all-zero.",
      "that secp256k1_memzero_explicit is not optimised away (compiler property)")
_prop("C14", ALL_RULES,
      "ECDSA adaptor signatures, structural clauses.",
      "the adaptor and DLEQ equations, recover(decrypt) identity")
_prop("C15", ALL_RULES,
      "Sign-to-contract / anti-exfil, structural clauses.",
      "equality of the two nonce derivations' values beyond the shared RFC 6979 sanitiser, soundness of the commitment")
_prop("C16", ALL_RULES,
      "Whitelist proofs, structural clauses.",
      "the ring equation, round-trip", assumptions=_BOUND_ASSUME)
_prop("C17", ALL_RULES,
      "Half-aggregation, structural clauses.",
      "the aggregate equation, incremental == one-shot equality (256-bit arithmetic)", assumptions=_BOUND_ASSUME)
_prop("C18", ALL_RULES,
      "ECDH / ElligatorSwift, structural clauses.",
      "agreement of both parties, the map and its inverse (field arithmetic)")
_prop("C19", ALL_RULES,
      "Bulletproofs++, structural clauses.",
      "completeness / soundness of the norm argument, generator determinism", assumptions=_BOUND_ASSUME)


def _ct_run(cfg, tier):
    import r_ct
    from concurrent.futures import ThreadPoolExecutor
    cfgs = PROPERTIES["C06"]["configs_thorough" if tier == "thorough" else "configs_quick"]
    missing = [c for c in cfgs if ("R-CT", c) not in _cache]
    if len(missing) > 1:
        # the configurations are independent: analyse them side by side (two irx processes each)
        with ThreadPoolExecutor(max_workers=len(missing)) as ex:
            for c, res in zip(missing, ex.map(lambda c: r_ct.obligations_for(c, tier), missing)):
                _cache[("R-CT", c)] = res
    return _memo("R-CT", cfg, lambda c: r_ct.obligations_for(c, tier))


R_CT = {"name": "R-CT", "run": _ct_run}

_prop("C06", [R_CT], "",
      "instruction selection turning a select into a branch, variable-latency instructions (as for valgrind); the -O2 IR pass of the design is not built "
      "(needs constant-integer memory slots for the inlined declassify); public-parameter variations beyond those of fixtures/ct_variants.c",
      explanation="Constant time, decided over the LLVM IR of src/ctime_tests.c linked with the library by abstract interpretation (engine irx: byte-granular "
      "taint, sub-object extents, fully context-sensitive, all paths): secrets are exactly the bytes the maintainers mark with CHECKMEM_UNDEFINE, "
      "CHECKMEM_DEFINE / secp256k1_declassify clear them, and no tainted value reaches a branch or switch condition, a load / store / memcpy address, "
      "a memcpy / memset length, a div / rem operand or an indirect-call target in any function. One obligation per library entry point called by "
      "run_tests(), once as written and once with the context's blinding state (scalar_offset, ge_offset, proj_blind) secret from creation on "
      "(randomized contexts). A third pass analyses /verif/fixtures/ct_variants.c, public-parameter variations of the same harness with the same secrets: "
      "optional arguments present (explicit nonce functions with caller data, secret auxiliary randomness for BIP-340 and ElligatorSwift, extraparams), "
      "variable-length Schnorr messages, 2 and 3 MuSig signers with plain and x-only tweaks and without adaptor, nonce_gen with all optional arguments "
      "absent, a custom ECDH hash function, and the whole list again on a context randomized through the real API with a secret seed. "
      "A positive-control fixture must be flagged on every run.",
      level="proof", engine="irx",
      technique="static analysis: abstract interpretation (taint / information flow) over whole-program LLVM IR, custom engine irx",
      trusted_base=["clang 14 -O0 IR generation + opt-14 mem2reg/loop-rotate/indvars/full-unroll(<=8)", "engines/irx.cc", "rules/r_ct.py",
                    "src/ctime_tests.c as the secrecy specification", "fixtures/ct_variants.c (same secrets, more public variations)", "models: memcpy/memset/malloc/abort, secp256k1_memcmp_var(n const), inline-asm effects from constraints"],
      assumptions=["-O0 IR mirrors the source statement by statement; a branch-free verdict there is the property's second sentence",
                   "secp256k1_declassify is trusted as the maintainers' statement that a value is public, exactly as valgrind trusts it",
                   "the blinding state cancels algebraically in the result of secp256k1_ecmult_gen (its taint is dropped from that result only)",
                   "inline asm is data flow only: its template is scanned for control-transfer mnemonics"],
      configs_quick=["K0", "K3"], configs_thorough=["K0", "K1", "K2", "K3"])


def _eff_rule(name, func):
    def run(cfg, tier):
        import r_eff
        return _memo(name, cfg, lambda c: getattr(r_eff, func)(c))
    return {"name": name, "run": run, "unscoped": True}


R_GLOB = _eff_rule("R-GLOB", "glob_obligations")
R_EFF = _eff_rule("R-EFF", "eff_obligations")
R_ALLOC = _eff_rule("R-ALLOC", "alloc_obligations")

_prop("C20", [R_GLOB, R_EFF, R_ALLOC, R_DOM, R_SCTX, R_PAIR, R_CONST, R_CAP, R_NULL, R_MUST], "",
      "equality of results across randomisation histories (the blinding invariant nG = comb(n + offset) + ge_offset is algebra) and across "
      "compression-function replacements",
      explanation="Context independence, state/effect clauses: R-GLOB every object with static storage duration in the library's translation units is const "
      "(AST inventory), cross-checked against the writable sections of the objects compiled from the current tree; R-EFF (engine irx, symbolic "
      "arguments, all paths) no exported function taking a const context stores into the context object or into any global, hence concurrent use "
      "of one context through that API has no write to shared library state; R-ALLOC only the documented allocators reach malloc and context "
      "creation / cloning reach exactly one allocation site outside any loop; R-DOM every call chain from an exported function to the generator "
      "multiplication passes the built-context ARG_CHECK, so on the static context it reports illegal use instead of touching blinding state; "
      "R-PAIR context creation / cloning release or hand over their allocation on every exit. Positive-control fixture on every run.",
      engine="irx+sx",
      technique="static analysis: AST inventory of static storage + object-file section cross-check + write-effect abstract interpretation over LLVM IR (irx) + call-graph dominance and reachability",
      assumptions=["objects handed to the API by the caller do not overlap the context",
                   "caller-supplied callbacks (noncefp, hash functions, compression function, illegal/error callbacks) are the caller's code: the library defaults are analysed, a caller-supplied pointer is opaque"],
      configs_quick=["K0"], configs_thorough=["K0", "K1", "K2", "K3"])
