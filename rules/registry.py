"""registry — which rules decide which clauses of which property (DESIGN §5)."""
import copy

import sxlib

_cache = {}


def _memo(name, cfg, fn):
    k = (name, cfg)
    if k not in _cache:
        _cache[k] = fn(cfg)
    obs, st = _cache[k]
    return [copy.copy(o) for o in obs], dict(st or {})


def _rule(name, modname, func="obligations", **kw):
    def run(cfg, tier):
        mod = __import__(modname)
        return _memo(name, cfg, lambda c: getattr(mod, func)(sxlib.program(c)))
    d = {"name": name, "run": run}
    d.update(kw)
    return d


R_CHK = _rule("R-CHK", "r_chk")
R_OBL = _rule("R-OBL", "r_obl")
R_RED = _rule("R-RED", "r_obl", "red_obligations")
R_FLOW = _rule("R-FLOW", "r_flow")

R_CAP = _rule("R-CAP", "r_cap", all_for=("C07",))
R_RING = _rule("R-RING", "r_cap", "ring_obligations", all_for=("C07",))
R_WRAP = _rule("R-WRAP", "r_cap", "wrap_obligations")
R_ZOF = _rule("R-ZOF", "zof")
R_BIND = _rule("R-BIND", "r_bind")
_ZOFTXT = ("R-ZOF (zero-on-failure dataflow `zof`): the listed output objects are all-zero at every return that can yield 0 "
           "(lattice Z / C(v) / untouched / unknown with branch facts and bottom-up helper summaries). ")

DECODE = [R_CHK, R_OBL, R_RED]
BOUNDS = [R_CAP, R_RING, R_WRAP]

ALL_CFG = ["K0", "K1", "K2", "K3"]

_COMMON_ASSUME = [
    "the clang 14 AST/CFG of src/secp256k1.c (all modules incl. ENABLE_MODULE_RECOVERY, which the pinned build omits) is the program analysed",
    "a passing check establishes the listed structural obligations (each a necessary condition of the property) on every path / call site, not the behavioural property itself",
    "exception and role tables in /verif/tables were reviewed by reading the code; each entry carries its reason",
]

PROPERTIES = {}


def _prop(pid, rules, explanation, not_decided, **kw):
    d = {"rules": rules, "explanation": explanation, "not_decided": not_decided,
         "assumptions": list(_COMMON_ASSUME) + kw.pop("assumptions", []),
         "configs_quick": ["K0"], "configs_thorough": ALL_CFG, "level": "other"}
    d.update(kw)
    PROPERTIES[pid] = d


_BINDTXT = "R-BIND: point comparisons compare the full point (x-only primitive only in the ECDSA equation; .x/.y comparisons paired; listed verifiers keep their full-point equality). "
_DEC = ("R-CHK: the failure indicator of every fallible decode (overflow flag / zero return) reaches a branch or the verdict on every path "
        "before it is overwritten; R-OBL: each untrusted parameter is still consumed by the decoders and validity tests frozen in "
        "tables/obligations.json (interprocedural parameter-rooted value flow); R-RED: raw caller bytes are decoded by reduction only in listed roles. ")

_prop("C01", DECODE + [R_FLOW, R_ZOF, R_BIND],
      "ECDSA: " + _DEC + "R-FLOW: RFC 6979 is keyed with the scalar-decoded message, never the raw bytes. Recovery module analysed although the pinned build omits it.",
      "that the equation computed is the ECDSA equation; low-S of produced signatures; RFC 6979 byte-exactness; recover(sign) == pubkey (all 256-bit arithmetic)")
_prop("C02", DECODE + [R_FLOW, R_ZOF],
      "BIP-340: " + _DEC + "R-FLOW: msg/msglen flow unmodified from sign_custom / verify through sign_internal and the challenge into sha256_write; "
      "sha256_write's cursor discipline.",
      "byte-for-byte equality with BIP-340, aux=NULL == zero aux, exact acceptance set (hash and curve arithmetic)")
_prop("C03", DECODE + [R_ZOF],
      "Encodings: " + _DEC,
      "the DER grammar itself (minimal-length / padding predicates over byte values), hybrid parity rule, round-trip equalities")
_prop("C04", DECODE + [R_FLOW, R_ZOF],
      "Key algebra: " + _DEC + "R-FLOW: n_pubkeys and the array reach secp256k1_hsort unmodified.",
      "commutation of secret and public operations, correctness of heap sort beyond its length argument, lexicographic order")
_prop("C05", [R_FLOW],
      "Hash kernel, structural clause only: caller lengths reach secp256k1_sha256_write unmodified (tagged hash, HMAC) and "
      "sha256_write moves its data pointer and remaining length together by the amount consumed (R-FLOW / R-CUR).",
      "ALL field / scalar / group / ecmult exactness and cross-configuration bit-identity: statements about 256-bit values, out of reach of static analysis here (declared not applicable for those clauses)")
_CAPTXT = ("R-CAP (interval analysis `giv`): armed memcpy/memset lengths, variable array indexes and shift amounts stay within the "
           "capacity / width on every path; R-RING: every ring size handed to the Borromean verifier is >= 1; R-WRAP: armed 64-bit "
           "additions / multiplications of header-derived quantities are range-proved, guarded or post-checked. ")
_prop("C07", BOUNDS,
      "Untrusted bytes, structural clauses: " + _CAPTXT,
      "general in-bounds / UB-freedom of the proof verifiers (needs relational invariants such as npub = sum rsizes <= 128, outside the interval domain: "
      "the unprovable sites are listed in the evidence as not armed); termination; leak-freedom and callback reachability are decided by separate rules when registered",
      assumptions=["distinct pointer parameters do not alias", "summaries: secp256k1_count_bits_set(d, c) in [0, 8c]; clz/ctz ranges"])
_prop("C08", DECODE + [R_BIND],
      "Pedersen: " + _DEC,
      "that the commitment is bG + vH, tally semantics, round-trips")
_prop("C09", DECODE + BOUNDS,
      "Range-proof creation: " + _DEC,
      "created proofs verify, bound the value, rewind (value-level)")
_prop("C10", DECODE + BOUNDS,
      "Range-proof verification: " + _DEC,
      "the Borromean ring equation and hash binding")
_prop("C11", DECODE + BOUNDS,
      "Surjection proofs: " + _DEC,
      "subset selection correctness, the ring equation")
_prop("C12", DECODE + [R_FLOW, R_ZOF, R_BIND],
      "MuSig2: " + _DEC,
      "equality with the BIP-327 functions, session validity, adapt/extract inverse (algebra)")
_prop("C13", [R_ZOF, R_CHK, R_OBL, R_BIND],
      "MuSig secnonce single use (typestate over call histories, decided on the two functions that implement it): " + _ZOFTXT +
      "Instances: *secnonce is all-zero at EVERY return of partial_sign after its own NULL check (incl. every later ARG_CHECK return); "
      "secnonce is zero on every failing return of nonce_gen / nonce_gen_counter (through nonce_gen_internal and secnonce_invalidate); "
      "session_secrand32 is zero whenever nonce_gen succeeds. R-OBL: the all-zero test of the stored nonce and of session_secrand32 are still "
      "reachable; R-CHK: the key-validity decode in nonce generation reaches the verdict. Induction over histories: an all-zero secnonce stays "
      "unusable until a successful nonce_gen and every partial_sign that touches it leaves it all-zero.",
      "that secp256k1_memzero_explicit is not optimised away (compiler property)")
_prop("C14", DECODE + [R_ZOF, R_BIND],
      "ECDSA adaptor: " + _DEC,
      "the adaptor and DLEQ equations, recover(decrypt) identity")
_prop("C15", DECODE + [R_ZOF],
      "Sign-to-contract / anti-exfil: " + _DEC,
      "equality of the two nonce derivations' values, soundness of the commitment")
_prop("C16", DECODE + BOUNDS,
      "Whitelist: " + _DEC,
      "the ring equation, round-trip")
_prop("C17", DECODE + BOUNDS,
      "Half-aggregation: " + _DEC,
      "the aggregate equation, incremental == one-shot equality (arithmetic over 256-bit values)")
_prop("C18", DECODE + [R_ZOF],
      "ECDH / ElligatorSwift: " + _DEC,
      "agreement of both parties, the map and its inverse (field arithmetic)")
_prop("C19", DECODE + [R_BIND],
      "Bulletproofs++: " + _DEC,
      "completeness / soundness of the norm argument, generator determinism")
