"""registry — which rules decide which clauses of which property (DESIGN §5)."""
import copy

import sxlib

_cache = {}


def _memo(name, cfg, fn):
    k = (name, cfg)
    if k not in _cache:
        _cache[k] = fn(cfg)
    obs, st = _cache[k]
    return [copy.copy(o) for o in obs], dict(st or {})


def _rule(name, modname, func="obligations", **kw):
    def run(cfg, tier):
        mod = __import__(modname)
        return _memo(name, cfg, lambda c: getattr(mod, func)(sxlib.program(c)))
    d = {"name": name, "run": run}
    d.update(kw)
    return d


R_CHK = _rule("R-CHK", "r_chk")
R_OBL = _rule("R-OBL", "r_obl")
R_RED = _rule("R-RED", "r_obl", "red_obligations")
R_FLOW = _rule("R-FLOW", "r_flow")

R_CAP = _rule("R-CAP", "r_cap", all_for=("C07",))
R_RING = _rule("R-RING", "r_cap", "ring_obligations", all_for=("C07",))
R_WRAP = _rule("R-WRAP", "r_cap", "wrap_obligations")
R_ZOF = _rule("R-ZOF", "zof")
R_BIND = _rule("R-BIND", "r_bind")
_ZOFTXT = ("R-ZOF (zero-on-failure dataflow `zof`): the listed output objects are all-zero at every return that can yield 0 "
           "(lattice Z / C(v) / untouched / unknown with branch facts and bottom-up helper summaries). ")

DECODE = [R_CHK, R_OBL, R_RED]
R_INB = _rule("R-INB", "r_inb")
BOUNDS = [R_CAP, R_RING, R_WRAP, R_INB]

ALL_CFG = ["K0", "K1", "K2", "K3"]

_COMMON_ASSUME = [
    "the clang 14 AST/CFG of src/secp256k1.c (all modules incl. ENABLE_MODULE_RECOVERY, which the pinned build omits) is the program analysed",
    "a passing check establishes the listed structural obligations (each a necessary condition of the property) on every path / call site, not the behavioural property itself",
    "exception and role tables in /verif/tables were reviewed by reading the code; each entry carries its reason",
]

PROPERTIES = {}


def _prop(pid, rules, explanation, not_decided, **kw):
    d = {"rules": rules, "explanation": explanation, "not_decided": not_decided,
         "assumptions": list(_COMMON_ASSUME) + kw.pop("assumptions", []),
         "configs_quick": ["K0"], "configs_thorough": ALL_CFG, "level": "other"}
    d.update(kw)
    PROPERTIES[pid] = d


_BINDTXT = "R-BIND: point comparisons compare the full point (x-only primitive only in the ECDSA equation; .x/.y comparisons paired; listed verifiers keep their full-point equality). "
_DEC = ("R-CHK: the failure indicator of every fallible decode (overflow flag / zero return) reaches a branch or the verdict on every path "
        "before it is overwritten; R-OBL: each untrusted parameter is still consumed by the decoders and validity tests frozen in "
        "tables/obligations.json (interprocedural parameter-rooted value flow); R-RED: raw caller bytes are decoded by reduction only in listed roles. ")

_prop("C01", DECODE + [R_FLOW, R_ZOF, R_BIND],
      "ECDSA: " + _DEC + "R-FLOW: RFC 6979 is keyed with the scalar-decoded message, never the raw bytes. Recovery module analysed although the pinned build omits it.",
      "that the equation computed is the ECDSA equation; low-S of produced signatures; RFC 6979 byte-exactness; recover(sign) == pubkey (all 256-bit arithmetic)")
_prop("C02", DECODE + [R_FLOW, R_ZOF],
      "BIP-340: " + _DEC + "R-FLOW: msg/msglen flow unmodified from sign_custom / verify through sign_internal and the challenge into sha256_write; "
      "sha256_write's cursor discipline.",
      "byte-for-byte equality with BIP-340, aux=NULL == zero aux, exact acceptance set (hash and curve arithmetic)")
_prop("C03", DECODE + [R_ZOF, R_INB],
      "Encodings: " + _DEC,
      "the DER grammar itself (minimal-length / padding predicates over byte values), hybrid parity rule, round-trip equalities")
_prop("C04", DECODE + [R_FLOW, R_ZOF],
      "Key algebra: " + _DEC + "R-FLOW: n_pubkeys and the array reach secp256k1_hsort unmodified.",
      "commutation of secret and public operations, correctness of heap sort beyond its length argument, lexicographic order")
_prop("C05", [R_FLOW],
      "Hash kernel, structural clause only: caller lengths reach secp256k1_sha256_write unmodified (tagged hash, HMAC) and "
      "sha256_write moves its data pointer and remaining length together by the amount consumed (R-FLOW / R-CUR).",
      "ALL field / scalar / group / ecmult exactness and cross-configuration bit-identity: statements about 256-bit values, out of reach of static analysis here (declared not applicable for those clauses)")
_CAPTXT = ("R-CAP (interval analysis `giv`): armed memcpy/memset lengths, variable array indexes and shift amounts stay within the "
           "capacity / width on every path; R-RING: every ring size handed to the Borromean verifier is >= 1; R-WRAP: armed 64-bit "
           "additions / multiplications of header-derived quantities are range-proved, guarded or post-checked; R-INB (symbolic linear "
           "guard prover): armed reads of a (pointer, length) input buffer are dominated by a guard establishing length >= offset + bytes read. ")
_prop("C07", BOUNDS,
      "Untrusted bytes, structural clauses: " + _CAPTXT,
      "general in-bounds / UB-freedom of the proof verifiers (needs relational invariants such as npub = sum rsizes <= 128, outside the interval domain: "
      "the unprovable sites are listed in the evidence as not armed); termination; leak-freedom and callback reachability are decided by separate rules when registered",
      assumptions=["distinct pointer parameters do not alias", "summaries: secp256k1_count_bits_set(d, c) in [0, 8c]; clz/ctz ranges"])
_prop("C08", DECODE + [R_BIND],
      "Pedersen: " + _DEC,
      "that the commitment is bG + vH, tally semantics, round-trips")
_prop("C09", DECODE + BOUNDS,
      "Range-proof creation: " + _DEC,
      "created proofs verify, bound the value, rewind (value-level)")
_prop("C10", DECODE + BOUNDS,
      "Range-proof verification: " + _DEC,
      "the Borromean ring equation and hash binding")
_prop("C11", DECODE + BOUNDS,
      "Surjection proofs: " + _DEC,
      "subset selection correctness, the ring equation")
_prop("C12", DECODE + [R_FLOW, R_ZOF, R_BIND],
      "MuSig2: " + _DEC,
      "equality with the BIP-327 functions, session validity, adapt/extract inverse (algebra)")
_prop("C13", [R_ZOF, R_CHK, R_OBL, R_BIND],
      "MuSig secnonce single use (typestate over call histories, decided on the two functions that implement it): " + _ZOFTXT +
      "Instances: *secnonce is all-zero at EVERY return of partial_sign after its own NULL check (incl. every later ARG_CHECK return); "
      "secnonce is zero on every failing return of nonce_gen / nonce_gen_counter (through nonce_gen_internal and secnonce_invalidate); "
      "session_secrand32 is zero whenever nonce_gen succeeds. R-OBL: the all-zero test of the stored nonce and of session_secrand32 are still "
      "reachable; R-CHK: the key-validity decode in nonce generation reaches the verdict. Induction over histories: an all-zero secnonce stays "
      "unusable until a successful nonce_gen and every partial_sign that touches it leaves it all-zero.",
      "that secp256k1_memzero_explicit is not optimised away (compiler property)")
_prop("C14", DECODE + [R_ZOF, R_BIND],
      "ECDSA adaptor: " + _DEC,
      "the adaptor and DLEQ equations, recover(decrypt) identity")
_prop("C15", DECODE + [R_ZOF, R_FLOW],
      "Sign-to-contract / anti-exfil: " + _DEC,
      "equality of the two nonce derivations' values, soundness of the commitment")
_prop("C16", DECODE + BOUNDS,
      "Whitelist: " + _DEC,
      "the ring equation, round-trip")
_prop("C17", DECODE + BOUNDS + [R_BIND],
      "Half-aggregation: " + _DEC,
      "the aggregate equation, incremental == one-shot equality (arithmetic over 256-bit values)")
_prop("C18", DECODE + [R_ZOF],
      "ECDH / ElligatorSwift: " + _DEC,
      "agreement of both parties, the map and its inverse (field arithmetic)")
_prop("C19", DECODE + [R_BIND, R_INB, R_CAP],
      "Bulletproofs++: " + _DEC,
      "completeness / soundness of the norm argument, generator determinism")


def _ct_run(cfg, tier):
    import r_ct
    return _memo("R-CT", cfg, lambda c: r_ct.obligations_for(c, tier))


R_CT = {"name": "R-CT", "run": _ct_run}

_prop("C06", [R_CT],
      "Constant time, decided over the LLVM IR of src/ctime_tests.c linked with the library by abstract interpretation (engine irx: byte-granular "
      "taint, sub-object extents, fully context-sensitive, all paths): secrets are exactly the bytes the maintainers mark with CHECKMEM_UNDEFINE, "
      "CHECKMEM_DEFINE / secp256k1_declassify clear them, and no tainted value reaches a branch or switch condition, a load / store / memcpy address, "
      "a memcpy / memset length, a div / rem operand or an indirect-call target in any function. One obligation per library entry point called by "
      "run_tests(), once as written and once with the context's blinding state (scalar_offset, ge_offset, proj_blind) secret from creation on "
      "(randomized contexts). A positive-control fixture must be flagged on every run.",
      "instruction selection turning a select into a branch, variable-latency instructions (as for valgrind); the -O2 IR pass of the design is not built "
      "(needs constant-integer memory slots for the inlined declassify); per-API symbolic roots with optional arguments toggled are not built",
      level="proof", engine="irx",
      technique="static analysis: abstract interpretation (taint / information flow) over whole-program LLVM IR, custom engine irx",
      trusted_base=["clang 14 -O0 IR generation + opt-14 mem2reg/loop-rotate/indvars/full-unroll(<=8)", "engines/irx.cc", "rules/r_ct.py",
                    "src/ctime_tests.c as the secrecy specification", "models: memcpy/memset/malloc/abort, secp256k1_memcmp_var(n const), inline-asm effects from constraints"],
      assumptions=["-O0 IR mirrors the source statement by statement; a branch-free verdict there is the property's second sentence",
                   "secp256k1_declassify is trusted as the maintainers' statement that a value is public, exactly as valgrind trusts it",
                   "the blinding state cancels algebraically in the result of secp256k1_ecmult_gen (its taint is dropped from that result only)",
                   "inline asm is data flow only: its template is scanned for control-transfer mnemonics"],
      configs_quick=["K0"], configs_thorough=["K0", "K1", "K2", "K3"])


def _eff_rule(name, func):
    def run(cfg, tier):
        import r_eff
        return _memo(name, cfg, lambda c: getattr(r_eff, func)(c))
    return {"name": name, "run": run, "unscoped": True}


R_GLOB = _eff_rule("R-GLOB", "glob_obligations")
R_EFF = _eff_rule("R-EFF", "eff_obligations")
R_ALLOC = _eff_rule("R-ALLOC", "alloc_obligations")

_prop("C20", [R_GLOB, R_EFF, R_ALLOC],
      "Context independence, state/effect clauses: R-GLOB every object with static storage duration in the library's translation units is const "
      "(AST inventory), cross-checked against the writable sections of the objects compiled from the current tree; R-EFF (engine irx, symbolic "
      "arguments, all paths) no exported function taking a const context stores into the context object or into any global, hence concurrent use "
      "of one context through that API has no write to shared library state; R-ALLOC only the documented allocators reach malloc and context "
      "creation / cloning reach exactly one allocation site outside any loop. Positive-control fixture on every run.",
      "equality of results across randomisation histories (the blinding invariant nG = comb(n + offset) + ge_offset is algebra) and across "
      "compression-function replacements; static-context behaviour beyond the is_built guards",
      engine="irx+sx",
      technique="static analysis: AST inventory of static storage + object-file section cross-check + write-effect abstract interpretation over LLVM IR (irx) + call-graph reachability",
      assumptions=["objects handed to the API by the caller do not overlap the context",
                   "caller-supplied callbacks (noncefp, hash functions, compression function, illegal/error callbacks) are the caller's code: the library defaults are analysed, a caller-supplied pointer is opaque"],
      configs_quick=["K0"], configs_thorough=["K0", "K1", "K2", "K3"])
