"""registry — which rules decide which clauses of which property (DESIGN §5)."""
import sxlib

_cache = {}


def _memo(name, cfg, fn):
    k = (name, cfg)
    if k not in _cache:
        _cache[k] = fn(cfg)
    obs, st = _cache[k]
    # hand out copies so that per-property re-scoping cannot interfere
    import copy
    return [copy.copy(o) for o in obs], dict(st or {})


def _rule(name, modname, **kw):
    def run(cfg, tier):
        mod = __import__(modname)
        return _memo(name, cfg, lambda c: mod.obligations(sxlib.program(c)))
    d = {"name": name, "run": run}
    d.update(kw)
    return d


R_CHK = _rule("R-CHK", "r_chk")

ALL_CFG = ["K0", "K1", "K2", "K3"]

_COMMON_ASSUME = [
    "the clang 14 AST/CFG of src/secp256k1.c (with ENABLE_MODULE_RECOVERY added) is the program analysed",
    "a passing check establishes the listed structural obligations (each a necessary condition of the property), not the behavioural property itself",
]

PROPERTIES = {}


def _prop(pid, rules, explanation, not_decided, **kw):
    d = {"rules": rules, "explanation": explanation, "not_decided": not_decided,
         "assumptions": list(_COMMON_ASSUME) + kw.pop("assumptions", []),
         "configs_quick": ["K0"], "configs_thorough": ALL_CFG, "level": "other"}
    d.update(kw)
    PROPERTIES[pid] = d


_prop("C17", [R_CHK],
      "Half-aggregation: every fallible decode in the module (s < n, r_i < p and liftable, key loads) has its failure "
      "indicator reaching a branch or the verdict on the def-use chains of the CFG.",
      "the aggregate equation, incremental == one-shot equality (arithmetic over 256-bit values)")
