"""R-CHK — a fallible decode must reach a rejection (DESIGN §4).

For every call site of a fallible decoder the failure indicator (return value,
or the overflow out-parameter) must, on the def-use chains leaving the call,
reach (a) a branch condition, (b) the enclosing function's return value, or
(c) an out-parameter of the enclosing function.  (b)/(c) make the enclosing
function a *derived* fallible function whose own call sites are then checked
(least fixpoint over the call graph).  A use only as a cmov / memczero flag, a
discarded result, or a value stored and never read again does not count.
"""
from sxlib import *

# Seeds: the repository's own decoders whose signature says "may fail".
# name -> ("ret",) failure = zero return; ("out", argindex) failure = non-zero *arg
SEED = {
    "secp256k1_scalar_set_b32": ("out", 2),
    "secp256k1_scalar_set_b32_seckey": ("ret",),
    "secp256k1_fe_set_b32_limit": ("ret",),
    "secp256k1_ge_set_xo_var": ("ret",),
    "secp256k1_ge_set_xquad": ("ret",),
    "secp256k1_ge_x_on_curve_var": ("ret",),
    "secp256k1_ge_x_frac_on_curve_var": ("ret",),
    "secp256k1_ge_is_valid_var": ("ret",),
    "secp256k1_ge_is_in_correct_subgroup": ("ret",),
    "secp256k1_eckey_pubkey_parse": ("ret",),
    "secp256k1_der_read_len": ("ret",),
    "secp256k1_der_parse_integer": ("ret",),
    "secp256k1_ecdsa_sig_parse": ("ret",),
    "secp256k1_bppp_parse_one_of_points": ("ret",),
    "secp256k1_dleq_verify": ("ret",),
    "secp256k1_ecdsa_sig_verify": ("ret",),
    "secp256k1_borromean_verify": ("ret",),
}

VALUE_OPS = ("un", "bin", "cond", "bool", "narrow")


def _path_to(root, target):
    """List of nodes from root down to target (identity), or None."""
    if root is target:
        return [root]
    for c in children(root):
        p = _path_to(c, target)
        if p is not None:
            return [root] + p
    return None


class Outcome:
    def __init__(self):
        self.kinds = set()       # 'branch', 'return', 'out:<i>'
        self.witness = []        # (kind, loc, text)

    def add(self, k, loc, text):
        if k not in self.kinds:
            self.kinds.add(k)
        self.witness.append((k, loc, text))


def track_var(fn, blk, idx, var, out, visited, depth=0):
    """Follow the definition of `var` made at element (blk, idx)."""
    key = (blk, idx, var)
    if key in visited or depth > 12:
        return
    visited.add(key)
    for u in forward_uses(fn, blk, idx, var):
        if u.where == "term":
            if occurs_in_verdict_position(u.expr, var):
                out.add("branch", u.loc, show(u.expr))
            continue
        e = u.expr
        k = kind(e)
        if k == "return" and e[1] is not None:
            if occurs_in_verdict_position(e[1], var):
                out.add("return", u.loc, show(e))
            continue
        # the element may be the branch condition of its block
        b = term_of_cond_elem(fn, u.elem)
        if b is not None and occurs_in_verdict_position(e, var):
            out.add("branch", u.loc, show(e))
            continue
        cands = []
        if k == "decls":
            for d in e[1:]:
                if d[2] is not None:
                    cands.append((["var", d[1]], "=", d[2]))
        for x in walk(e):
            if x[0] == "assign":
                cands.append((strip(x[2]), x[1], x[3]))
        for lhs, op, rhs in cands:
            if not (occurs_in_verdict_position(rhs, var) or (op != "=" and kind(lhs) == "var" and lhs[1] == var)):
                continue
            if kind(lhs) == "var":
                track_var(fn, u.blk, u.elem.idx, lhs[1], out, visited, depth + 1)
            elif kind(lhs) == "deref" and kind(strip(lhs[1])) == "var" and strip(lhs[1])[1] in fn.param_index:
                out.add("out:%d" % fn.param_index[strip(lhs[1])[1]], u.loc, show(e))
            # stores into other memory (struct fields of outputs) are not rejections


def classify_ret_site(fn, el, call):
    """How is the value of `call` (inside top-level element el) consumed?"""
    out = Outcome()
    path = _path_to(el.e, call)
    if path is None:
        return out, "lost"
    # walk upwards: all ancestors between the statement root and the call must be value operators
    anc = path[:-1]
    stmt = anc[0] if anc else None
    inner = anc[1:] if anc else []
    if stmt is None:
        # the element *is* the call: discarded, unless it is the block's branch condition
        b = term_of_cond_elem(fn, el)
        if b is not None:
            out.add("branch", el.loc, show(el.e))
            return out, "branch"
        return out, "discarded"
    def value_chain(nodes):
        return all(n[0] in VALUE_OPS for n in nodes)
    k = stmt[0]
    if k == "return":
        if value_chain(inner):
            out.add("return", el.loc, show(stmt))
            return out, "returned"
        return out, "argument"
    if k in VALUE_OPS:
        if value_chain(inner):
            b = term_of_cond_elem(fn, el)
            if b is not None:
                out.add("branch", el.loc, show(stmt))
                return out, "branch"
            return out, "discarded"
        return out, "argument"
    # assignment / declaration somewhere on the path
    for i, n in enumerate(anc):
        if n[0] == "assign" and value_chain(anc[i + 1:]) and _path_to(n[3], call) is not None:
            lhs = strip(n[2])
            if kind(lhs) == "var":
                track_var(fn, el.blk, el.idx, lhs[1], out, set())
                return out, "assigned:" + lhs[1]
            if kind(lhs) == "deref" and kind(strip(lhs[1])) == "var" and strip(lhs[1])[1] in fn.param_index:
                out.add("out:%d" % fn.param_index[strip(lhs[1])[1]], el.loc, show(n))
                return out, "stored-out"
            return out, "stored:" + show(lhs)
        if n[0] == "decl" and value_chain(anc[i + 1:]):
            track_var(fn, el.blk, el.idx, n[1], out, set())
            return out, "assigned:" + n[1]
    return out, "argument"


def classify_out_site(fn, el, call, argi):
    out = Outcome()
    if argi >= len(call[3]):
        return out, "noarg"
    a = strip(call[3][argi])
    if is_int(a, 0):
        return out, "null"
    if kind(a) == "addr" and kind(strip(a[1])) == "var":
        v = strip(a[1])[1]
        track_var(fn, el.blk, el.idx, v, out, set())
        return out, "flag:" + v
    if kind(a) == "var" and a[1] in fn.param_index:
        out.add("out:%d" % fn.param_index[a[1]], el.loc, show(call))
        return out, "passthrough:" + a[1]
    return out, "other:" + show(a)


def must_use(fn, blk, idx, var):
    """Every path leaving the definition of `var` at (blk, idx) must read it before the variable is
    redefined and before any return other than `return 0`.  Returns None when that holds, else
    (reason, loc) for the first offending path end found."""
    seen = set()
    work = [(blk, idx + 1)]
    while work:
        bid, i = work.pop()
        if (bid, i) in seen:
            continue
        seen.add((bid, i))
        b = fn.blocks[bid]
        stop = False
        for el in b.elems[i:]:
            if not el.top:
                continue
            if reads_excluding_pure_defs(el.e, var):
                stop = True
                break
            if kills(el.e, var):
                return ("overwritten before any use", el.loc)
            if kind(el.e) == "return":
                if el.e[1] is None or is_int(el.e[1], 0) or "ARG_CHECK" in el.macros:
                    stop = True
                    break
                return ("function returns `%s` without consulting it" % show(el.e[1])[:60], el.loc)
        if stop:
            continue
        if b.term and b.cond is not None and _reads_var(b.cond, var):
            continue
        succs = [s for s in b.succs if s is not None]
        if not succs and bid != fn.exit:
            continue   # noreturn call
        for s in succs:
            if s == fn.exit:
                # fell off the end of a void function without a use
                if fn.ret == "void":
                    return ("function ends without consulting it", fn.loc)
                continue
            work.append((s, 0))
    return None


def _reads_var(e, var):
    return any(x[0] == "var" and x[1] == var for x in walk(e))


def _must_for_site(fn, el, call, spec, how):
    if spec[0] == "out" and how.startswith("flag:"):
        return must_use(fn, el.blk, el.idx, how[5:])
    if spec[0] == "ret" and how.startswith("assigned:"):
        return must_use(fn, el.blk, el.idx, how[9:])
    return None


def analyse(prog):
    """Examine every call site of every (seed or derived) fallible function."""
    fall = dict(SEED)
    sites = {}
    changed = True
    rounds = 0
    while changed and rounds < 20:
        changed = False
        rounds += 1
        callers = prog.callers()
        for dec, spec in list(fall.items()):
            for (fn, el, call) in callers.get(dec, []):
                if "VERIFY_CHECK" in el.macros:
                    continue
                if spec[0] == "ret":
                    out, how = classify_ret_site(fn, el, call)
                else:
                    out, how = classify_out_site(fn, el, call, spec[1])
                key = (fn.name, call[2], dec)
                sites[key] = {"fn": fn, "loc": call[2], "decoder": dec, "style": spec[0], "how": how,
                              "outcomes": sorted(out.kinds), "witness": out.witness[:3], "call": show(call)[:200],
                              "must": _must_for_site(fn, el, call, spec, how)}
                for k in out.kinds:
                    if k == "return" and fn.ret == "int" and fn.name not in fall:
                        fall[fn.name] = ("ret",)
                        changed = True
                    if k.startswith("out:") and fn.name not in fall:
                        fall[fn.name] = ("out", int(k[4:]))
                        changed = True
    return sites, fall


def obligations(prog):
    from core import Obligation, number_ids, load_table
    exc = load_table("chk_exceptions.json")
    missing = [n for n in SEED if n not in prog.functions and n not in OPTIONAL_SEEDS]
    if missing:
        raise AnalysisBroken("R-CHK: seed decoders vanished from the translation unit: %s" % ", ".join(missing))
    sites, fall = analyse(prog)
    def lk(loc):
        f, l = loc.rsplit(":", 1)
        return (f, int(l))
    ordered = sorted(sites.values(), key=lambda s: (s["fn"].name, s["decoder"], lk(s["loc"])))
    items = number_ids([("R-CHK:%s:%s" % (s["fn"].name, s["decoder"]), s) for s in ordered])
    obs = []
    used = set()
    for oid, s in items:
        if s["how"] == "null":
            continue   # a reducing decode: R-RED decides whether that is legitimate
        ek = "%s:%s" % (s["fn"].name, s["decoder"])
        text = "failure indicator of %s must reach a branch, the return value or an out-parameter of %s" % (s["decoder"], s["fn"].name)
        if s["outcomes"] and s["must"] is not None and ek not in exc:
            if ek + ":lost-path" in exc:
                used.add(ek + ":lost-path")
                obs.append(Obligation("R-CHK", oid, s["loc"], s["fn"].name, text, True,
                                      "used (%s), but not on every path: %s at %s; accepted by named exception" % (s["how"], s["must"][0], s["must"][1]),
                                      exception=exc[ek + ":lost-path"]))
            else:
                obs.append(Obligation("R-CHK", oid, s["loc"], s["fn"].name, text, False,
                                      "on some path the indicator (%s) is lost: %s at %s; call: %s" % (s["how"], s["must"][0], s["must"][1], s["call"])))
        elif s["outcomes"]:
            w = s["witness"][0]
            obs.append(Obligation("R-CHK", oid, s["loc"], s["fn"].name, text, True,
                                  "%s via %s at %s: %s" % (s["how"], w[0], w[1], w[2][:120])))
        elif ek in exc:
            used.add(ek)
            obs.append(Obligation("R-CHK", oid, s["loc"], s["fn"].name, text, True,
                                  "not checked (%s); accepted by named exception" % s["how"], exception=exc[ek]))
        else:
            obs.append(Obligation("R-CHK", oid, s["loc"], s["fn"].name, text, False,
                                  "result is %s: the failure indicator reaches neither a branch nor the return value; call: %s" % (s["how"], s["call"])))
    # carriers: an integer local that takes over a failure flag (`ret &= !(overflow || ..)`) inherits its obligation — it must
    # be read before it is overwritten and before a non-zero return on every path.  `ret = ..` for `ret &= ..` inside a loop
    # keeps only the last iteration's verdict: the carrier of iteration k is overwritten, unread, in iteration k + 1.
    seen_c = set()
    ncar = 0
    for s in ordered:
        if not s["how"].startswith("flag:"):
            continue
        flag, fn = s["how"][5:], s["fn"]
        for el in fn.elems():
            if not el.top:
                continue
            for (v, op, rhs, via) in defs_in_elem(el.e):
                if via not in ("assign", "decl") or rhs is None or v == flag or not _reads_var(rhs, flag):
                    continue
                vi = fn.vars.get(v)
                if not vi or not vi.get("int_bits") or (fn.name, v, el.loc) in seen_c:
                    continue
                seen_c.add((fn.name, v, el.loc))
                ncar += 1
                m = must_use(fn, el.blk, el.idx, v)
                obs.append(Obligation("R-CHK", "R-CHK:%s:carrier:%s#%d" % (fn.name, v, len([1 for k in seen_c if k[0] == fn.name and k[1] == v])), el.loc, fn.name,
                                      "`%s` takes over the failure flag %s in %s: it must be read before it is overwritten or a non-zero return" % (v, flag, fn.name),
                                      m is None, ("`%s`; read on every path" % show(el.e)[:60]) if m is None else "`%s`: %s at %s" % (show(el.e)[:60], m[0], m[1])))
    # results that are ignored on purpose: turning them into a rejection refuses inputs the specification accepts
    for (fn_, callee_, props_, why_) in MUST_IGNORE:
        f_ = prog.fn(fn_)
        cs = [(el, c) for el, c in f_.all_calls() if callee_name(c) == callee_]
        if not cs:
            # the helper was inlined or moved: nothing to compare (never an alarm, never a broken analysis)
            obs.append(Obligation("R-CHK", "R-CHK:%s:%s:ignored" % (fn_, callee_), f_.loc, fn_,
                                  "the result of %s stays ignored in %s: %s" % (callee_, fn_, why_), True,
                                  "NOT DECIDED: %s no longer calls %s" % (fn_, callee_), props=props_))
            continue
        for el, c in cs:
            used_val = not (el.top and (el.e is c or (kind(el.e) == "call" and el.e[2] == c[2])))
            obs.append(Obligation("R-CHK", "R-CHK:%s:%s:ignored" % (fn_, callee_), el.loc, fn_,
                                  "the result of %s stays ignored in %s: %s" % (callee_, fn_, why_), not used_val,
                                  "the call is a statement of its own" if not used_val else "the result is used: `%s`" % show(el.e)[:80], props=props_))
    stale = sorted(set(exc) - used - {"_comment"})
    if stale:
        raise AnalysisBroken("R-CHK: exception table entries match no call site any more: %s" % ", ".join(stale))
    return obs, {"fallible_functions": len(fall), "call_sites": len(sites), "seed_decoders": len(SEED)}


MUST_IGNORE = [
    ("secp256k1_whitelist_compute_keys_and_message", "secp256k1_whitelist_tweak_pubkey", {"C16"},
     "it fails only when offline_j + W is the point at infinity, where the specified ring key is online_j — which is what the code then uses; "
     "rejecting makes every signer and verifier fail for a list that contains such a pair"),
]
OPTIONAL_SEEDS = {"secp256k1_ge_x_frac_on_curve_var"}


if __name__ == "__main__":
    import sys
    prog = program(sys.argv[1] if len(sys.argv) > 1 else "K0")
    obs, st = obligations(prog)
    print(st)
    for o in obs:
        if not o.ok or o.exception:
            print(("EXC " if o.ok else "VIOL"), o.oid, o.loc, o.detail[:150])
