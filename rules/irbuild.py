"""irbuild — compile /repo's current sources to one linked, prepared LLVM-IR module for the irx engine."""
import os
import subprocess

import sxlib
from sxlib import AnalysisBroken, VERIF, REPO, WORK

PREP_PASSES = "function(mem2reg,loop-simplify,lcssa,loop-mssa(loop-rotate),loop(indvars,loop-unroll-full))"


def _run(cmd, what):
    r = subprocess.run(cmd, stdout=subprocess.PIPE, stderr=subprocess.PIPE, text=True)
    if r.returncode != 0:
        raise AnalysisBroken("%s failed: %s\n%s" % (what, " ".join(cmd)[:300], (r.stderr or r.stdout)[-1500:]))
    return r


def build(config="K0", units=("ctime_tests.c", "secp256k1.c", "precomputed_ecmult.c", "precomputed_ecmult_gen.c"), opt="O0"):
    """Returns the path of the prepared .ll (cached per tree digest within one run of the checks)."""
    os.makedirs(WORK, exist_ok=True)
    def src_of(u):
        # "@name.c" is a harness of /verif/fixtures (hashed into the tag so that editing it rebuilds), anything else a unit of /repo/src
        return os.path.join(VERIF, "fixtures", u[1:]) if u.startswith("@") else os.path.join(REPO, "src", u)
    import hashlib
    fx = hashlib.sha256(b"".join(open(src_of(u), "rb").read() for u in units if u.startswith("@"))).hexdigest()[:8]
    tag = "%s.%s.%s.%s%s" % (config, opt, "+".join(u.lstrip("@").split(".")[0] for u in units), sxlib.tree_digest(), fx if any(u.startswith("@") for u in units) else "")
    out = os.path.join(WORK, "ir.%s.ll" % tag)
    if os.path.exists(out) and os.path.getsize(out) > 0:
        return out
    for f in os.listdir(WORK):
        if f.startswith("ir.") and sxlib.tree_digest() not in f:
            try:
                os.remove(os.path.join(WORK, f))
            except OSError:
                pass
    tmpd = os.path.join(WORK, "irtmp.%d.%s.%s.%s" % (os.getpid(), config, opt, units[0].lstrip("@").split(".")[0]))   # one per (process, configuration, root unit): they build in parallel threads
    os.makedirs(tmpd, exist_ok=True)
    try:
        lls = []
        procs = []
        flags = [f for f in sxlib.cflags(config) if f != "-Wno-everything"] + ["-Wno-everything"]
        for u in units:
            ll = os.path.join(tmpd, u.lstrip("@").replace(".c", ".ll"))
            lls.append(ll)
            if opt == "O0":
                cmd = ["clang-14"] + flags + ["-O0", "-Xclang", "-disable-O0-optnone", "-g", "-S", "-emit-llvm",
                                              src_of(u), "-o", ll]
            else:
                cmd = ["clang-14"] + flags + ["-O2", "-g", "-S", "-emit-llvm", src_of(u), "-o", ll]
            procs.append((cmd, subprocess.Popen(cmd, stdout=subprocess.PIPE, stderr=subprocess.PIPE, text=True)))
        for cmd, p in procs:
            o, e = p.communicate()
            if p.returncode != 0:
                raise AnalysisBroken("clang failed: %s\n%s" % (" ".join(cmd)[-200:], e[-1500:]))
        linked = os.path.join(tmpd, "all.ll")
        _run(["llvm-link-14", "-S"] + lls + ["-o", linked], "llvm-link")
        tmpout = out + ".tmp"
        if opt == "O0":
            _run(["opt-14", "-S", "-passes=" + PREP_PASSES, "-unroll-threshold=100000000", "-unroll-full-max-count=8",
                  linked, "-o", tmpout], "opt")
        else:
            os.replace(linked, tmpout)
        os.replace(tmpout, out)
    finally:
        subprocess.run(["rm", "-rf", tmpd])
    return out


if __name__ == "__main__":
    import sys, time
    t = time.time()
    print(build(sys.argv[1] if len(sys.argv) > 1 else "K0"), "%.1fs" % (time.time() - t))
