"""R-VERDICT — every accepting return of a verifier derives from its final equation test (the R-AND idea, generalised).

For each listed verification function, every return that can yield non-zero must take its value from the designated
equation predicate(s) (directly, through value operators, or through variables whose definitions contain the call), or —
when it is a literal non-zero — be dominated by a branch on such a predicate.  An added shortcut such as
`if (pcnt == 0 || ncnt == 0) return pcnt == ncnt;` accepts without evaluating the equation.
"""
from sxlib import *
from core import Obligation

# function -> (equation predicates (callee names), properties)
VERIFIERS = {
    "secp256k1_ecdsa_verify": (["secp256k1_ecdsa_sig_verify"], {"C01"}),
    "secp256k1_ecdsa_sig_verify": (["secp256k1_gej_eq_x_var", "secp256k1_scalar_eq"], {"C01"}),
    "secp256k1_schnorrsig_verify": (["secp256k1_fe_equal"], {"C02"}),
    "secp256k1_pedersen_verify_tally": (["secp256k1_gej_is_infinity"], {"C08"}),
    "secp256k1_borromean_verify": (["secp256k1_memcmp_var"], {"C10", "C11", "C16"}),
    "secp256k1_rangeproof_verify_impl": (["secp256k1_borromean_verify"], {"C10"}),
    "secp256k1_rangeproof_verify": (["secp256k1_rangeproof_verify_impl"], {"C10"}),
    "secp256k1_surjectionproof_verify": (["secp256k1_borromean_verify"], {"C11"}),
    "secp256k1_whitelist_verify": (["secp256k1_borromean_verify"], {"C16"}),
    "secp256k1_musig_partial_sig_verify": (["secp256k1_gej_is_infinity"], {"C12"}),
    "secp256k1_ecdsa_adaptor_verify": (["secp256k1_gej_is_infinity"], {"C14"}),
    "secp256k1_dleq_verify": (["secp256k1_scalar_is_zero"], {"C14"}),
    "secp256k1_ecdsa_s2c_verify_commit": (["secp256k1_scalar_eq", "secp256k1_ec_commit_verify", "secp256k1_fe_equal", "secp256k1_memcmp_var"], {"C15"}),
    "secp256k1_anti_exfil_host_verify": (["secp256k1_ecdsa_s2c_verify_commit", "secp256k1_ecdsa_verify"], {"C15"}, "all"),
    "secp256k1_schnorrsig_aggverify": (["secp256k1_gej_is_infinity"], {"C17"}),
    "secp256k1_bppp_rangeproof_norm_product_verify": (["secp256k1_gej_eq_var"], {"C19"}),
    "secp256k1_xonly_pubkey_tweak_add_check": (["secp256k1_ec_pubkey_tweak_add_check_helper", "secp256k1_memcmp_var"], {"C04"}),
}


def contributing_calls(f, e, depth=0, seen=None):
    """Callee names whose results can flow into expression e (through value operators and variable definitions)."""
    seen = seen if seen is not None else set()
    out = set()
    for x in walk(e):
        if x[0] == "call":
            n = callee_name(x)
            if n:
                out.add(n)
        elif x[0] == "var" and x[1] not in seen and depth < 6:
            seen.add(x[1])
            for el in f.elems():
                for (n, op, rhs, via) in defs_in_elem(el.e):
                    if n == x[1] and rhs is not None and via in ("assign", "decl"):
                        out |= contributing_calls(f, rhs, depth + 1, seen)
    return out


def obligations(prog):
    obs = []
    for fname, spec in VERIFIERS.items():
        preds, props = spec[0], spec[1]
        need_all = len(spec) > 2 and spec[2] == "all"      # conjunction of two verdicts: both must feed the accept
        f = prog.fn(fname)
        present = {callee_name(c) for el, c in f.all_calls()}
        if not (present & set(preds)):
            obs.append(Obligation("R-VERDICT", "R-VERDICT:%s" % fname, f.loc, fname,
                                  "%s must evaluate its equation predicate (%s)" % (fname, " / ".join(preds)), False,
                                  "none of the predicates is called any more", props=props))
            continue
        dom = f.dominators()
        n = 0
        for el in sorted(f.returns(), key=lambda e: int(e.loc.rsplit(":", 1)[1])):
            e = el.e[1]
            if e is None or is_int(e, 0) or "ARG_CHECK" in el.macros:
                continue
            n += 1
            oid = "R-VERDICT:%s#%d" % (fname, n)
            text = "the accepting `%s` of %s must take its value from the equation test %s" % (show(el.e)[:50], fname, " / ".join(preds))
            if is_int(e):
                # literal accept: some dominating branch must be decided by a predicate
                ok, why = False, "literal accept not dominated by a branch on the predicate"
                for d in dom.get(el.blk, ()):
                    b = f.blocks[d]
                    if d == el.blk or b.cond is None:
                        continue
                    if contributing_calls(f, b.cond) & set(preds):
                        ok, why = True, "dominated by the branch `%s` at %s" % (show(b.cond)[:60], b.term["loc"])
                obs.append(Obligation("R-VERDICT", oid, el.loc, fname, text, ok, why, props=props))
            else:
                cc = contributing_calls(f, e)
                # `if (!p1(..)) return 0; return p2(..);` — a predicate that decided a dominating branch has been applied too
                for d in dom.get(el.blk, ()):
                    if d != el.blk and f.blocks[d].cond is not None:
                        cc |= contributing_calls(f, f.blocks[d].cond) & set(preds)
                ok = (set(preds) <= cc) if need_all else bool(cc & set(preds))
                obs.append(Obligation("R-VERDICT", oid, el.loc, fname, text, ok,
                                      ("value derives from %s" % ", ".join(sorted(cc & set(preds)))) if ok else
                                      ("value derives only from %s — the equation test is bypassed on this return" % (", ".join(sorted(cc)) or "non-call expressions")),
                                      props=props))
        if n == 0:
            raise AnalysisBroken("R-VERDICT: %s has no accepting return" % fname)
    return obs, {"verifiers": len(VERIFIERS)}


if __name__ == "__main__":
    import sys
    prog = program("K0")
    if len(sys.argv) > 1 and sys.argv[1] == "list":
        for fname in VERIFIERS:
            f = prog.fn(fname)
            for el in f.returns():
                e = el.e[1]
                if e is None or is_int(e, 0) or "ARG_CHECK" in el.macros:
                    continue
                print(fname, el.loc, show(e)[:60], sorted(contributing_calls(f, e)))
    else:
        obs, st = obligations(prog)
        print(st)
        for o in obs:
            print("OK  " if o.ok else "VIOL", o.oid, o.loc, o.detail[:160])
