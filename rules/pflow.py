"""pflow — parameter-rooted value flow (interprocedural, flow-insensitive per function).

For every function G and parameter j it computes which *sinks* consume the data
that parameter j points to:

    S(G, j) = { (offset | None, kind, site) }

offset is the byte offset into the parameter's pointee when it is a constant on
every step of the derivation, None ("*") otherwise.  Sinks are the repository's
decoders and validity predicates (tables below).

A source is a triple (param, offset, cls).  cls 'd' = the value *is* (a decoding
or a copy of) the bytes at that offset: it survives pointer arithmetic, member
selection, local aliases, memcpy, the decode primitives and the copy/convert
primitives in COPY.  cls 'c' = merely computed from it (arithmetic).  Only 'd'
sources reach sinks, so "sig64@32 -> sc_checked" and "the scalar decoded from
sig->data is tested by scalar_is_high" are recorded, while "the infinity test on
R = sG - eP depends on every argument" is not.
"""
from sxlib import *


def _sc_kind(c):
    return "sc_reduced" if (len(c[3]) > 2 and is_int(c[3][2], 0)) else "sc_checked"


# byte-pointer sinks: callee -> (arg index, kind or callable(call)->kind, out arg index or None)
BYTE_SINKS = {
    "secp256k1_scalar_set_b32": (1, _sc_kind, 0),
    "secp256k1_scalar_set_b32_seckey": (1, "seckey", 0),
    "secp256k1_fe_set_b32_limit": (1, "fe_checked", 0),
    "secp256k1_fe_set_b32_mod": (1, "fe_reduced", 0),
    "secp256k1_sha256_write": (2, "hashed", None),
    "secp256k1_hmac_sha256_write": (2, "hashed", None),
    "secp256k1_read_be32": (0, "read_be32", None),
    "secp256k1_read_be64": (0, "read_be64", None),
    "secp256k1_memcmp_var": (0, "compared", None),
    "memcmp": (0, "compared", None),
    "secp256k1_is_zero_array": (0, "zero_array_test", None),
    "secp256k1_rfc6979_hmac_sha256_initialize": (2, "rfc6979_key", None),
}
# sinks whose kind records how the bytes arrive (raw / scalar-decoded / field-decoded)
CLASS_KINDS = ("rfc6979_key",)
_SECOND = {"secp256k1_memcmp_var": 1, "memcmp": 1}
# typed sinks: callee -> (arg index, kind)
TYPED_SINKS = {
    "secp256k1_scalar_is_zero": (0, "sc_zero_test"),
    "secp256k1_scalar_is_high": (0, "sc_high_test"),
    "secp256k1_fe_is_zero": (0, "fe_zero_test"),
    "secp256k1_fe_normalizes_to_zero": (0, "fe_zero_test"),
    "secp256k1_fe_normalizes_to_zero_var": (0, "fe_zero_test"),
    "secp256k1_fe_is_odd": (0, "fe_parity_test"),
    "secp256k1_fe_is_square_var": (0, "fe_square_test"),
    "secp256k1_ge_set_xo_var": (1, "curve"),
    "secp256k1_ge_set_xquad": (1, "curve"),
    "secp256k1_ge_x_on_curve_var": (0, "curve"),
    "secp256k1_ge_is_valid_var": (0, "curve"),
    "secp256k1_ge_is_in_correct_subgroup": (0, "subgroup"),
    "secp256k1_ge_is_infinity": (0, "infinity_test"),
    "secp256k1_gej_is_infinity": (0, "infinity_test"),
    "secp256k1_scalar_inverse_var": (1, "sc_inverted"),
    "secp256k1_scalar_inverse": (1, "sc_inverted"),
    "secp256k1_fe_cmp_var": (0, "fe_compared"),
}
# value-preserving primitives: out arg <- in args keep class 'd'   callee -> (out index, [in indexes])
COPY = {
    "secp256k1_scalar_get_b32": (0, [1]),
    "secp256k1_fe_get_b32": (0, [1]),
    "secp256k1_ge_set_xy": (0, [1, 2]),
    "secp256k1_ge_set_xo_var": (0, [1]),
    "secp256k1_ge_set_xquad": (0, [1]),
    "secp256k1_ge_from_storage": (0, [1]),
    "secp256k1_ge_to_storage": (0, [1]),
    "secp256k1_ge_from_bytes": (0, [1]),
    "secp256k1_ge_to_bytes": (0, [1]),
    "secp256k1_ge_from_bytes_ext": (0, [1]),
    "secp256k1_ge_to_bytes_ext": (0, [1]),
    "secp256k1_fe_from_storage": (0, [1]),
    "secp256k1_fe_to_storage": (0, [1]),
    "secp256k1_gej_set_ge": (0, [1]),
    "secp256k1_ge_set_gej": (0, [1]),
    "secp256k1_ge_set_gej_var": (0, [1]),
    "secp256k1_fe_normalize_var": (0, [0]),
    "secp256k1_fe_normalize": (0, [0]),
    "secp256k1_scalar_set_int": (0, []),
}

IGNORED_PARAM_TYPES = ("struct secp256k1_context_struct", "secp256k1_hash_ctx", "secp256k1_callback",
                       "secp256k1_scratch", "struct secp256k1_scratch_space_struct", "secp256k1_ecmult_gen_context")
MAXOFF = 6


def _shift(srcs, d):
    if d == 0:
        return set(srcs)
    return {(p, (o + d) if (o is not None and d is not None) else None, c) for (p, o, c) in srcs}


def _star(srcs):
    return {(p, None, c) for (p, o, c) in srcs}


def _recls(srcs, via):
    """Compose the class of caller-side sources with the class recorded in a callee summary."""
    if via == "d":
        return set(srcs)
    if via == "c":
        return _comp(srcs)
    return {(p, o, (via if c == "d" else c)) for (p, o, c) in srcs}


def _comp(srcs):
    return {(p, None, "c") for (p, o, c) in srcs}


def _norm_add(cur, new):
    """Add triples to set `cur`, collapsing to offset None when a (param, cls) has too many offsets.
    Returns True when cur changed."""
    changed = False
    for t in new:
        p, o, c = t
        if t in cur or (p, None, c) in cur:
            continue
        cur.add(t)
        changed = True
        same = [x for x in cur if x[0] == p and x[2] == c]
        if o is None or len(same) > MAXOFF:
            for x in same:
                cur.discard(x)
            cur.add((p, None, c))
    return changed


class FnFlow:
    def __init__(self, fn, pf):
        self.fn = fn
        self.pf = pf
        self.derived = {}      # local name -> set of (param, offset, cls)
        self.sinks = {}        # param index -> set of (offset, kind, loc)
        self.outflow = {}      # out param k -> set of (in param j, offset, cls)
        self.ret_from = set()  # (param j, offset, cls)
        self.changed = False

    # ---- typing helpers
    def _elem_bytes(self, base):
        b = strip(base)
        if kind(b) == "decay":
            return b[3] or None
        if kind(b) == "var":
            v = self.fn.vars.get(b[1])
            if v and v.get("ptr"):
                return v.get("pointee_bytes")
        return None

    def _struct_of_lvalue(self, e):
        e = strip(e)
        if kind(e) == "var":
            v = self.fn.vars.get(e[1])
            if v:
                return v.get("canon")
        if kind(e) == "deref":
            p = strip(e[1])
            if kind(p) == "var":
                v = self.fn.vars.get(p[1])
                if v and v.get("ptr"):
                    return v.get("pointee_canon")
        return None

    def _field_offset(self, base, field):
        sn = self._struct_of_lvalue(base)
        st = self.pf.prog.structs.get(sn) if sn else None
        if not st:
            return None
        for f in st["fields"]:
            if f["name"] == field:
                return f["offset"]
        return None

    # ---- sources of an expression
    def src(self, e, depth=0):
        e = strip(e)
        k = kind(e)
        if k is None or depth > 40:
            return set()
        if k == "var":
            n = e[1]
            if n in self.fn.param_index:
                i = self.fn.param_index[n]
                if self.pf.ignored_param(self.fn, i):
                    return set()
                return {(i, 0, "d")} | self.derived.get(n, set())
            return set(self.derived.get(n, ()))
        if k in ("int", "gvar", "fn", "str", "sizeof"):
            return set()
        if k in ("addr", "deref", "decay"):
            return self.src(e[1], depth + 1)
        if k == "member":
            s = self.src(e[1], depth + 1)
            off = self._field_offset(e[1], e[2])
            return _shift(s, off) if off is not None else _star(s)
        if k == "index":
            s = self.src(e[1], depth + 1)
            idx = int_val(e[2])
            eb = self._elem_bytes(e[1])
            if idx is not None and eb:
                return _shift(s, idx * eb)
            return _star(s)
        if k == "bin":
            l, r = e[2], e[3]
            if e[1] in ("+", "-"):
                ls = self.src(l, depth + 1)
                eb = self._elem_bytes(l)
                if eb and ls:       # pointer arithmetic
                    rv = int_val(r)
                    if rv is not None:
                        return _shift(ls, rv * eb if e[1] == "+" else -rv * eb)
                    return _star(ls)
                return _comp(ls | self.src(r, depth + 1))
            return _comp(self.src(l, depth + 1) | self.src(r, depth + 1))
        if k == "un":
            return _comp(self.src(e[2], depth + 1))
        if k == "cond":
            return self.src(e[2], depth + 1) | self.src(e[3], depth + 1)
        if k == "incdec":
            return _star(self.src(e[3], depth + 1))
        if k == "call":
            out = set()
            cal = callee_name(e)
            cf = self.pf.flows.get(cal)
            if cf is not None:
                for (j, o, c) in cf.ret_from:
                    if j < len(e[3]):
                        s = self.src(e[3][j], depth + 1)
                        s = _shift(s, o) if o is not None else _star(s)
                        out |= _recls(s, c)
                return out
            if cal in ("secp256k1_read_be32", "secp256k1_read_be64"):
                return self.src(e[3][0], depth + 1) if e[3] else set()
            for a in e[3]:
                out |= _comp(self.src(a, depth + 1))
            return out
        if k == "assign":
            return self.src(e[3], depth + 1)
        if k == "init":
            out = set()
            for x in e[1:]:
                out |= self.src(x, depth + 1)
            return out
        return set()

    def _add_derived(self, name, srcs):
        if srcs and _norm_add(self.derived.setdefault(name, set()), srcs):
            self.changed = True

    def _add_sink(self, srcs, kind0, loc, allow_computed=False):
        for (p, o, c) in srcs:
            if c == "c" and not allow_computed:
                continue
            kind_ = kind0
            if c == "c":
                o = None
            if kind0 in CLASS_KINDS:
                kind_ = kind0 + ":" + {"d": "raw", "s": "scalar-decoded", "f": "field-decoded"}[c]
            s = self.sinks.setdefault(p, set())
            if (o, kind_, loc) in s or (None, kind_, loc) in s:
                continue
            s.add((o, kind_, loc))
            same = [x for x in s if x[1] == kind_ and x[2] == loc]
            if o is None or len(same) > MAXOFF:
                for x in same:
                    s.discard(x)
                s.add((None, kind_, loc))
            self.changed = True

    def _define_lhs(self, lhs, srcs):
        """Data `srcs` is stored into lvalue lhs."""
        if not srcs:
            return
        root = lvalue_root(lhs)
        if root is None or kind(root) != "var":
            return
        n = root[1]
        l = strip(lhs)
        if n in self.fn.param_index and kind(l) != "var":
            # store through a pointer parameter: out-flow of this function
            k = self.fn.param_index[n]
            if _norm_add(self.outflow.setdefault(k, set()), {t for t in srcs if t[0] != k}):
                self.changed = True
            return
        self._add_derived(n, srcs)

    def step(self):
        self.changed = False
        fn = self.fn
        for el in fn.elems():
            e = el.e
            if kind(e) == "decls":
                for d in e[1:]:
                    if d[2] is not None:
                        self._add_derived(d[1], self.src(d[2]))
            if kind(e) == "return" and e[1] is not None:
                if _norm_add(self.ret_from, self.src(e[1])):
                    self.changed = True
            for x in walk(e):
                k = kind(x)
                if k == "assign":
                    s = self.src(x[3])
                    if x[1] != "=":
                        s = _comp(s)
                    self._define_lhs(x[2], s)
                elif k == "call":
                    self._call(x)
        # conditions of ARG_CHECK / ARG_CHECK_VOID: which parameter contents can decide that the illegal callback fires?
        for b in fn.blocks.values():
            if b.cond is None or not b.term:
                continue
            if not any(m in ("ARG_CHECK", "ARG_CHECK_VOID") for m in b.term.get("macros", [])):
                continue
            c = strip(b.cond)
            while kind(c) == "un" and c[1] == "!":
                c = strip(c[2])
            if kind(c) == "var":
                continue                      # NULL test of a pointer / plain flag
            if kind(c) == "bin" and c[1] in ("==", "!=") and (is_int(c[2], 0) or is_int(c[3], 0)) and \
                    kind(strip(c[2] if is_int(c[3], 0) else c[3])) == "var":
                continue                      # p != NULL
            # only what the condition *reads through* a pointer counts (the pointer value itself is not input contents)
            srcs = set()
            for x in walk(b.cond):
                if kind(x) in ("index", "deref", "call") or (kind(x) == "member" and kind(strip(x[1])) == "deref"):
                    srcs |= self.src(x)
            self._add_sink(srcs, "abort_cond", b.term["loc"], allow_computed=True)
        return self.changed

    def _call(self, c):
        cal = callee_name(c)
        args = c[3]
        asrc = [self.src(a) for a in args]
        loc = c[2]
        if cal in BYTE_SINKS:
            i, kd, outi = BYTE_SINKS[cal]
            if i < len(args):
                kk = kd(c) if callable(kd) else kd
                self._add_sink(asrc[i], kk, loc)
                if cal in _SECOND and _SECOND[cal] < len(args):
                    self._add_sink(asrc[_SECOND[cal]], kk, loc)
                if outi is not None and outi < len(args):
                    nc = "f" if "_fe_" in cal else "s"
                    self._define_lhs(["deref", args[outi]], {(p, o, nc if c == "d" else c) for (p, o, c) in asrc[i]})
            return
        if cal in TYPED_SINKS:
            i, kd = TYPED_SINKS[cal]
            if i < len(args):
                self._add_sink(_star(asrc[i]), kd, loc)
        if cal in COPY:
            outi, ins = COPY[cal]
            s = set()
            for j in ins:
                if j < len(args) and j != outi:
                    s |= asrc[j]
            if outi < len(args):
                self._define_lhs(["deref", args[outi]], s)
            return
        if cal in ("memcpy", "memmove") and len(args) >= 2:
            self._define_lhs(["deref", args[0]], asrc[1])
            return
        if cal in TYPED_SINKS:
            return
        cf = self.pf.flows.get(cal)
        if cf is not None:
            for i, srcs in enumerate(asrc):
                if not srcs:
                    continue
                for (o, kd, sl) in cf.sinks.get(i, ()):
                    self._add_sink(_shift(srcs, o) if o is not None else _star(srcs), kd, sl)
            for k, flows in cf.outflow.items():
                if k >= len(args):
                    continue
                acc = set()
                for (j, o, cl) in flows:
                    if j < len(args) and asrc[j]:
                        s = _shift(asrc[j], o) if o is not None else _star(asrc[j])
                        acc |= _recls(s, cl)
                self._define_lhs(["deref", args[k]], acc)
            return
        # other primitives / externals: out-parameters are *computed* from the in-arguments
        for k, a in enumerate(args):
            a_ = strip(a)
            if kind(a_) in ("addr", "decay", "var") and not param_is_const_ptr(cal, k):
                if kind(a_) == "var":
                    v = self.fn.vars.get(a_[1])
                    if not (v and v.get("ptr")):
                        continue
                ins = set()
                for j, s in enumerate(asrc):
                    if j != k:
                        ins |= s
                self._define_lhs(["deref", a], _comp(ins))


class PFlow:
    def __init__(self, prog):
        self.prog = prog
        self.flows = {}
        prim = set(BYTE_SINKS) | set(TYPED_SINKS) | set(COPY)
        for n, f in prog.functions.items():
            if n in prim or not f.blocks:
                continue
            # arithmetic kernels are primitives: nothing in field/scalar/group/ecmult code decodes caller bytes
            if f.file.startswith(("src/field", "src/scalar", "src/group", "src/ecmult", "src/modinv", "src/int128", "src/hash_impl")):
                continue
            self.flows[n] = FnFlow(f, self)
        for rnd in range(40):
            ch = False
            for ff in self.flows.values():
                for _ in range(12):
                    if ff.step():
                        ch = True
                    else:
                        break
            if not ch:
                break
        else:
            raise AnalysisBroken("pflow: no fixpoint after 40 rounds")

    def ignored_param(self, fn, i):
        p = fn.params[i]
        if p.get("ptr"):
            return p.get("pointee_canon", "") in IGNORED_PARAM_TYPES
        return False

    def summary(self, fname):
        ff = self.flows.get(fname)
        return ff.sinks if ff else {}


_pf_cache = {}


def pflow(prog):
    if id(prog) not in _pf_cache:
        _pf_cache[id(prog)] = PFlow(prog)
    return _pf_cache[id(prog)]


if __name__ == "__main__":
    import sys, time
    prog = program("K0")
    t = time.time()
    pf = pflow(prog)
    print("pflow %.2fs" % (time.time() - t))
    names = sys.argv[1:] or ["secp256k1_schnorrsig_verify", "secp256k1_ecdsa_verify", "secp256k1_ecdsa_adaptor_verify"]
    for n in names:
        f = prog.fn(n)
        print(n)
        for j, s in sorted(pf.summary(n).items()):
            ks = sorted({(o if o is not None else -1, k) for (o, k, l) in s if k != "hashed"})
            print("   %-16s %s" % (f.params[j]["name"], ks))
