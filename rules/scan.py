#!/usr/bin/env python3
"""scan — run the registered checks against variants of /repo in scratch worktrees, in parallel.

  python3 rules/scan.py seeded [ids...] [--all-checks] [-j N]   every seeded/<id>/patch.diff: must be reported by its property's check
  python3 rules/scan.py benign [names...] [--skip=Cnn] [-j N]   every benign/<set>/*.diff: every check must stay silent

Each worker owns one scratch worktree of /repo's HEAD under /tmp (git worktree add --detach), applies one patch at a
time there, runs ./check with VERIF_REPO / VERIF_WORK / VERIF_OUT pointing at the scratch copy (so /repo, .work and
the committed evidence are never touched), reverts, and removes the worktree at the end.  Results go to
seeded/<id>/meta.json + seeded/RESULTS.md, or benign/RESULTS.md.
"""
import json
import os
import re
import shutil
import subprocess
import sys
import tempfile
from concurrent.futures import ThreadPoolExecutor

VERIF = os.path.dirname(os.path.dirname(os.path.abspath(__file__)))
REPO = "/repo"


def sh(cmd, **kw):
    return subprocess.run(cmd, stdout=subprocess.PIPE, stderr=subprocess.STDOUT, text=True, **kw)


class Worker:
    def __init__(self, n):
        self.root = tempfile.mkdtemp(prefix="verif_scan_%d_" % n, dir="/tmp")
        self.wt = os.path.join(self.root, "wt")
        r = sh(["git", "-C", REPO, "worktree", "add", "-q", "--detach", self.wt, "HEAD"])
        if r.returncode != 0:
            raise SystemExit("scan: cannot create scratch worktree: " + r.stdout)
        # uncommitted hooks / fixes in /repo's working tree belong to the baseline too
        d = sh(["git", "-C", REPO, "diff", "HEAD"]).stdout
        if d.strip():
            p = os.path.join(self.root, "base.diff")
            open(p, "w").write(d)
            sh(["git", "-C", self.wt, "apply", p])
            sh(["git", "-C", self.wt, "add", "-A"])
        self.env = dict(os.environ, VERIF_REPO=self.wt, VERIF_WORK=os.path.join(self.root, "work"), VERIF_OUT=os.path.join(self.root, "out"))

    def run(self, patch, pids):
        r = sh(["git", "-C", self.wt, "apply", patch])
        if r.returncode != 0:
            return None
        det = {}
        try:
            for pid in pids:
                c = sh([os.path.join(VERIF, "check"), pid], cwd=VERIF, env=self.env)
                viol = re.findall(r"^(\S+): (R-[A-Z]+): in (\S+): (.*)$", c.stdout, re.M)
                notes = [l for l in c.stdout.splitlines() if re.match(r"^(\S+: R-|ANALYSIS-BROKEN|NOTE)", l)]
                det[pid] = {"exit": c.returncode, "violations": [{"loc": v[0], "rule": v[1], "function": v[2], "text": v[3][:300]} for v in viol][:6],
                            "n_violations": len(re.findall(r"^VIOLATION ", c.stdout, re.M)), "lines": notes[:3]}
        finally:
            sh(["git", "-C", self.wt, "checkout", "--", "."])
            sh(["git", "-C", self.wt, "clean", "-fdq"])
        return det

    def close(self):
        sh(["git", "-C", REPO, "worktree", "remove", "--force", self.wt])
        shutil.rmtree(self.root, ignore_errors=True)


def pool_map(jobs, fn, nworkers):
    """jobs: list; fn(worker, job) -> result.  Each worker thread owns one scratch worktree."""
    import queue
    q = queue.Queue()
    for j in jobs:
        q.put(j)
    results = {}

    def loop(n):
        w = Worker(n)
        try:
            while True:
                try:
                    j = q.get_nowait()
                except queue.Empty:
                    return
                results[j] = fn(w, j)
                print("  done %s" % (j,), file=sys.stderr, flush=True)
        finally:
            w.close()

    with ThreadPoolExecutor(max_workers=nworkers) as ex:
        fs = [ex.submit(loop, i) for i in range(nworkers)]
        for f in fs:
            f.result()
    return results


def manifest_pids():
    return sorted(c["property_id"] for c in json.load(open(os.path.join(VERIF, "MANIFEST.json")))["checks"])


def seeded(args, nworkers):
    allchecks = "--all-checks" in args
    only = [a for a in args if not a.startswith("-")]
    sdir = os.path.join(VERIF, "seeded")
    seeds = sorted(d for d in os.listdir(sdir) if os.path.exists(os.path.join(sdir, d, "patch.diff")))
    todo = [s for s in seeds if not only or s in only]
    pids = manifest_pids()

    def one(w, sd):
        mp = os.path.join(sdir, sd, "meta.json")
        meta = json.load(open(mp)) if os.path.exists(mp) else {}
        prop = meta.get("property") or sd.split("-")[0]
        det = w.run(os.path.join(sdir, sd, "patch.diff"), pids if allchecks else [prop])
        if det is None:
            return (prop, "PATCH DOES NOT APPLY", "")
        meta["property"] = prop
        meta["detected_by"] = {p: {k: v[k] for k in ("exit", "violations", "n_violations")} for p, v in det.items() if v["exit"] == 1}
        meta["own_check_exit"] = det[prop]["exit"]
        meta["own_check_rules"] = sorted({v["rule"] for v in det[prop]["violations"]})
        json.dump(meta, open(mp, "w"), indent=1)
        return (prop, {0: "MISSED", 1: "caught", 2: "ANALYSIS-BROKEN"}.get(det[prop]["exit"], "?"),
                ", ".join(meta["own_check_rules"]) + ("; also " + ",".join(p for p in meta["detected_by"] if p != prop) if allchecks and len(meta["detected_by"]) > 1 else "")
                + (" " + " | ".join(det[prop]["lines"])[:200] if det[prop]["exit"] == 2 else ""))

    res = pool_map(todo, one, nworkers)
    for sd in todo:
        print("%-8s %-4s %-16s %s" % ((sd,) + res[sd]))
    lines = ["# Seeded changes — which check reports which change", "",
             "Generated by `python3 rules/scan.py seeded` (apply the patch in a scratch worktree of /repo, run the owning property's check there, revert).",
             "Every change compiles, passes all 317 tests and fails its own demonstration (meta.json: `confirmed`).", "",
             "| id | property | needs, in order to manifest | check result | reporting rules |", "|----|----------|------------------------------|--------------|-----------------|"]
    caught = missed = 0
    for sd in seeds:
        mp = os.path.join(sdir, sd, "meta.json")
        if not os.path.exists(mp):
            continue
        m = json.load(open(mp))
        if "own_check_exit" not in m:
            continue
        st = {0: "**missed**", 1: "caught", 2: "analysis-broken"}.get(m.get("own_check_exit"), "?")
        caught += m.get("own_check_exit") == 1
        missed += m.get("own_check_exit") == 0
        lines.append("| %s | %s | %s | %s | %s |" % (sd, m.get("property"), (m.get("needs_to_manifest") or "").replace("|", "/"), st,
                                                  ", ".join(m.get("own_check_rules", [])) or (m.get("miss_reason", "") if st != "caught" else "")))
    lines += ["", "%d caught, %d missed." % (caught, missed), ""]
    open(os.path.join(sdir, "RESULTS.md"), "w").write("\n".join(lines))
    return 0


def benign(args, nworkers):
    only = [a for a in args if not a.startswith("-")]
    skip = set(a[7:] for a in args if a.startswith("--skip="))
    bdir = os.path.join(VERIF, "benign")
    jobs = []
    for st in sorted(os.listdir(bdir)):
        d = os.path.join(bdir, st)
        if not os.path.isdir(d):
            continue
        for p in sorted(f for f in os.listdir(d) if f.endswith(".diff")):
            name = "%s/%s" % (st, p)
            if only and not any(o in name for o in only):
                continue
            jobs.append(name)
    pids = [p for p in manifest_pids() if p not in skip]

    def one(w, name):
        det = w.run(os.path.join(bdir, name), pids)
        if det is None:
            return None
        return [(pid, v["exit"], v["lines"]) for pid, v in sorted(det.items()) if v["exit"] != 0]

    res = pool_map(jobs, one, nworkers)
    out = []
    bad = 0
    for name in jobs:
        r = res[name]
        if r is None:
            out.append("%-22s PATCH DOES NOT APPLY" % name)
        elif r:
            bad += 1
            out.append("%-22s %s" % (name, "; ".join("%s exit %d" % (x[0], x[1]) for x in r)))
            for x in r:
                for l in x[2]:
                    out.append("      %s: %s" % (x[0], l[:260]))
        else:
            out.append("%-22s silent" % name)
    print("\n".join(out))
    if not only:
        open(os.path.join(bdir, "RESULTS.md"), "w").write(
            "# Behaviour-preserving edits — every check must stay silent\n\nGenerated by `python3 rules/scan.py benign %s` "
            "(each edit applied in a scratch worktree of /repo; checks run: %s).\n\n```\n%s\n```\n\n%d of %d edits raised something.\n"
            % (" ".join(a for a in args if a.startswith("--skip")), ", ".join(pids), "\n".join(out), bad, len(jobs)))
    return 1 if bad else 0


def main():
    args = sys.argv[1:]
    if not args or args[0] not in ("seeded", "benign"):
        sys.exit(__doc__)
    nworkers = 4
    rest = []
    it = iter(args[1:])
    for a in it:
        if a == "-j":
            nworkers = int(next(it))
        elif a.startswith("-j") and a[2:].isdigit():
            nworkers = int(a[2:])
        else:
            rest.append(a)
    return (seeded if args[0] == "seeded" else benign)(rest, nworkers)


if __name__ == "__main__":
    sys.exit(main())
