"""giv — guard-interval evaluation (DESIGN §3.4).

A forward interval analysis over one function's CFG (from sx): integer lvalues
(locals, parameters, *p, p->f, s.f, a[k]) are mapped to [lo, hi]; branch
conditions refine the environment on their true / false edges; calls that
receive a non-const pointer to an lvalue havoc it.  Joins are interval hulls,
loops are widened to the declared type range after three visits.  Anything the
domain cannot bound is simply unbounded (never guessed).
"""
import math

from sxlib import *

INF = math.inf

TYPES = {
    "int": (32, True), "unsigned int": (32, False), "unsigned": (32, False), "size_t": (64, False),
    "uint64_t": (64, False), "int64_t": (64, True), "uint32_t": (32, False), "int32_t": (32, True),
    "unsigned char": (8, False), "uint8_t": (8, False), "char": (8, True), "signed char": (8, True),
    "unsigned long": (64, False), "long": (64, True), "uint16_t": (16, False), "int16_t": (16, True),
    "unsigned long long": (64, False), "long long": (64, True), "unsigned short": (16, False), "short": (16, True),
}

SUMMARIES = {
    # callee -> fn(args intervals, call expr) -> interval
    "secp256k1_count_bits_set": lambda iv, c: (0, 8 * iv[1][1] if iv[1][1] != INF else INF),
    "secp256k1_clz64_var": lambda iv, c: (0, 64),
    "secp256k1_ctz32_var": lambda iv, c: (0, 31),
    "secp256k1_ctz64_var": lambda iv, c: (0, 63),
    "secp256k1_read_be32": lambda iv, c: (0, 2 ** 32 - 1),
    "secp256k1_read_be64": lambda iv, c: (0, 2 ** 64 - 1),
}


def trange(bits, signed):
    if signed:
        return (-(2 ** (bits - 1)), 2 ** (bits - 1) - 1)
    return (0, 2 ** bits - 1)


def _tname(t):
    t = t.replace("const ", "").replace("volatile ", "").strip()
    return t


class Giv:
    def __init__(self, fn, prog):
        self.fn = fn
        self.prog = prog
        self.inn = {}
        self._solve()

    # ---------------- typing
    def type_range_key(self, key):
        fn = self.fn
        if key is None:
            return (-INF, INF)
        if key.startswith("*"):
            v = fn.vars.get(key[1:])
            if v and v.get("ptr"):
                t = TYPES.get(_tname(v.get("pointee", "")))
                if t:
                    return trange(*t)
            return (-INF, INF)
        if "->" in key:
            p, f = key.split("->", 1)
            v = fn.vars.get(p)
            if v and v.get("ptr"):
                st = self.prog.structs.get(v.get("pointee_canon"))
                if st:
                    for fl in st["fields"]:
                        if fl["name"] == f and "int_bits" in fl:
                            return trange(fl["int_bits"], fl["signed"])
            return (-INF, INF)
        if "[" in key:
            a = key.split("[", 1)[0]
            v = fn.vars.get(a)
            if v:
                t = TYPES.get(_tname(v["type"].split("[", 1)[0]))
                if t:
                    return trange(*t)
            return (-INF, INF)
        if "." in key:
            s, f = key.split(".", 1)
            v = fn.vars.get(s)
            if v:
                st = self.prog.structs.get(v.get("canon"))
                if st:
                    for fl in st["fields"]:
                        if fl["name"] == f and "int_bits" in fl:
                            return trange(fl["int_bits"], fl["signed"])
            return (-INF, INF)
        v = fn.vars.get(key)
        if v and "int_bits" in v:
            return trange(v["int_bits"], v["signed"])
        return (-INF, INF)

    @staticmethod
    def key(e):
        e = strip(e)
        k = kind(e)
        if k == "var":
            return e[1]
        if k == "deref":
            b = strip(e[1])
            if kind(b) == "var":
                return "*" + b[1]
            return None
        if k == "member":
            b = strip(e[1])
            if kind(b) == "deref" and kind(strip(b[1])) == "var":
                return strip(b[1])[1] + "->" + e[2]
            if kind(b) == "var":
                return b[1] + "." + e[2]
            return None
        if k == "index":
            b = strip(e[1])
            i = int_val(e[2])
            if kind(b) == "decay" and kind(strip(b[1])) == "var" and i is not None:
                return "%s[%d]" % (strip(b[1])[1], i)
            if kind(b) == "var" and i == 0:
                return "*" + b[1]
            return None
        return None

    def _byte_elem(self, base):
        """Is base[...] an unsigned-char element?"""
        b = strip(base)
        if kind(b) == "var":
            v = self.fn.vars.get(b[1])
            return bool(v and v.get("ptr") and _tname(v.get("pointee", "")) == "unsigned char")
        if kind(b) == "decay":
            if b[3] == 1:
                return True
        if kind(b) == "bin" and b[1] in ("+", "-"):
            return self._byte_elem(b[2])
        return False

    # ---------------- evaluation
    def ev(self, e, env):
        k = kind(e)
        if k is None:
            return (-INF, INF)
        if k == "int":
            v = int(e[1])
            return (v, v)
        if k == "bool":
            return (0, 1)
        if k == "narrow":
            lo, hi = self.ev(e[3], env)
            tb = e[2]
            # value preserved when it fits the narrower type (signedness unknown: accept the unsigned or the signed window)
            if lo >= 0 and hi <= 2 ** (tb - 1) - 1:
                return (lo, hi)
            if lo >= -(2 ** (tb - 1)) and hi <= 2 ** (tb - 1) - 1:
                return (lo, hi)
            if lo >= 0 and hi <= 2 ** tb - 1:
                return (lo, hi) if tb < 64 else (lo, hi)
            return (-(2 ** (tb - 1)), 2 ** tb - 1)
        ky = self.key(e)
        if ky is not None:
            if ky in env:
                return env[ky]
            return self.type_range_key(ky)
        if k == "index":
            if self._byte_elem(e[1]):
                return (0, 255)
            return (-INF, INF)
        if k == "un":
            lo, hi = self.ev(e[2], env)
            if e[1] == "-":
                return (-hi, -lo)
            if e[1] == "!":
                if lo > 0 or hi < 0:
                    return (0, 0)
                if lo == 0 and hi == 0:
                    return (1, 1)
                return (0, 1)
            if e[1] == "+":
                return (lo, hi)
            return (-INF, INF)
        if k == "bin":
            op = e[1]
            a = self.ev(e[2], env)
            b = self.ev(e[3], env)
            return self.binop(op, a, b)
        if k == "cond":
            a = self.ev(e[2], env)
            b = self.ev(e[3], env)
            return (min(a[0], b[0]), max(a[1], b[1]))
        if k == "call":
            n = callee_name(e)
            if n in SUMMARIES:
                return SUMMARIES[n]([self.ev(a, env) for a in e[3]], e)
            g = self.prog.functions.get(n) if n else None
            if g is not None and g.ret in TYPES:
                return trange(*TYPES[g.ret])
            if g is not None:
                t = TYPES.get(_tname(g.ret))
                if t:
                    return trange(*t)
            return (-INF, INF)
        if k == "assign":
            return self.ev(e[3], env) if e[1] == "=" else (-INF, INF)
        return (-INF, INF)

    @staticmethod
    def binop(op, a, b):
        (al, ah), (bl, bh) = a, b
        fin = lambda *x: all(v not in (INF, -INF) for v in x)
        if op == "+":
            return (al + bl, ah + bh)
        if op == "-":
            return (al - bh, ah - bl)
        if op == "*":
            if fin(al, ah, bl, bh):
                ps = [al * bl, al * bh, ah * bl, ah * bh]
                return (min(ps), max(ps))
            if al >= 0 and bl >= 0:
                return (al * bl if fin(al, bl) else 0, INF)
            return (-INF, INF)
        if op == "/":
            if bl > 0 and al >= 0:
                return (al // bh if bh != INF else 0, (ah // bl) if ah != INF else INF)
            return (-INF, INF)
        if op == "%":
            if bl > 0 and bh != INF and al >= 0:
                return (0, min(ah, bh - 1))
            return (-INF, INF)
        if op == ">>":
            if al >= 0 and bl >= 0 and bh != INF:
                return ((al >> int(bh)) if al != INF else 0, (ah >> int(bl)) if ah != INF else INF)
            return (-INF, INF)
        if op == "<<":
            if al >= 0 and bl >= 0 and fin(ah, bh) and bh < 128:
                return (al << int(bl), ah << int(bh))
            return (0, INF) if al >= 0 else (-INF, INF)
        if op == "&":
            cands = [x for x in (ah if al >= 0 else None, bh if bl >= 0 else None) if x is not None]
            if cands:
                return (0, min(cands))
            return (-INF, INF)
        if op == "|" or op == "^":
            if al >= 0 and bl >= 0 and fin(ah, bh):
                m = max(ah, bh)
                return (0, (1 << int(m).bit_length()) - 1)
            return (-INF, INF)
        if op in ("<", ">", "<=", ">=", "==", "!=", "&&", "||"):
            return (0, 1)
        return (-INF, INF)

    # ---------------- refinement
    def refine(self, cond, pol, env):
        """Return env refined by cond being (pol ? true : false); None if infeasible."""
        cond = strip(cond) if kind(cond) == "bool" else cond
        k = kind(cond)
        if k == "bool":
            return self.refine(cond[1], pol, env)
        if k == "un" and cond[1] == "!":
            return self.refine(cond[2], not pol, env)
        if k == "bin" and cond[1] in ("<", ">", "<=", ">=", "==", "!="):
            op = cond[1]
            if not pol:
                op = {"<": ">=", ">": "<=", "<=": ">", ">=": "<", "==": "!=", "!=": "=="}[op]
            env = dict(env)
            L, R = cond[2], cond[3]
            lv, rv = self.ev(L, env), self.ev(R, env)
            kl, kr = self.key(L), self.key(R)
            Ls = strip(L)
            if kl is None and kind(Ls) == "incdec" and self.key(Ls[3]) is not None:
                # `while (i-- > 0)`: the block's statements have already applied the decrement; the value compared is the
                # old one (post form) or the new one (prefix form)
                kt = self.key(Ls[3])
                d = 1 if Ls[1] == "++" else -1
                cur = self.ev(Ls[3], env)
                tested = cur if Ls[2] else (cur[0] - d, cur[1] - d)
                n = self._apply(op, tested, rv)
                if n is None:
                    return None
                env[kt] = n if Ls[2] else (n[0] + d, n[1] + d)
                return env
            if kl is not None:
                n = self._apply(op, lv, rv)
                if n is None:
                    return None
                env[kl] = n
            elif kind(strip(L)) == "narrow" and self.key(strip(L)[3]) is not None and lv == self.ev(strip(L)[3], env):
                n = self._apply(op, lv, rv)
                if n is None:
                    return None
                env[self.key(strip(L)[3])] = n
            if kr is not None:
                flip = {"<": ">", ">": "<", "<=": ">=", ">=": "<=", "==": "==", "!=": "!="}[op]
                n = self._apply(flip, rv, lv)
                if n is None:
                    return None
                env[kr] = n
            return env
        if k == "bin" and cond[1] == "&&" and pol:
            e1 = self.refine(cond[2], True, env)
            return None if e1 is None else self.refine(cond[3], True, e1)
        if k == "bin" and cond[1] == "||" and not pol:
            e1 = self.refine(cond[2], False, env)
            return None if e1 is None else self.refine(cond[3], False, e1)
        ky = self.key(cond)
        if ky is not None:
            lo, hi = self.ev(cond, env)
            env = dict(env)
            if pol:
                if lo == 0 and hi == 0:
                    return None
                if lo == 0:
                    env[ky] = (1, hi)
                elif hi == 0:
                    env[ky] = (lo, -1)
            else:
                if lo > 0 or hi < 0:
                    return None
                env[ky] = (0, 0)
            return env
        return env

    @staticmethod
    def _apply(op, x, y):
        (xl, xh), (yl, yh) = x, y
        if op == "<":
            xh = min(xh, yh - 1)
        elif op == "<=":
            xh = min(xh, yh)
        elif op == ">":
            xl = max(xl, yl + 1)
        elif op == ">=":
            xl = max(xl, yl)
        elif op == "==":
            xl, xh = max(xl, yl), min(xh, yh)
        elif op == "!=":
            if yl == yh:
                if xl == yl:
                    xl += 1
                if xh == yl:
                    xh -= 1
        if xl > xh:
            return None
        return (xl, xh)

    # ---------------- transfer
    def _set(self, env, key, iv):
        if key is None:
            return
        tl, th = self.type_range_key(key)
        lo, hi = iv
        if lo < tl or hi > th:
            # conversion may wrap: fall back to the type range
            lo, hi = tl, th
        if (lo, hi) == (tl, th):
            env.pop(key, None)
        else:
            env[key] = (lo, hi)

    def _havoc_root(self, env, root, through_pointer):
        for k in list(env):
            if k == root and not through_pointer:
                del env[k]
            elif k == "*" + root or k.startswith(root + "->") or k.startswith(root + "[") or k.startswith(root + "."):
                del env[k]

    def stmt(self, e, env):
        """Apply the effects of top-level statement e to env (in place)."""
        k = kind(e)
        if k == "decls":
            for d in e[1:]:
                if d[2] is not None:
                    self.stmt(d[2], env)
                    self._set(env, d[1], self.ev(d[2], env))
                else:
                    env.pop(d[1], None)
            return
        if k == "return":
            if e[1] is not None:
                self.stmt(e[1], env)
            return
        if k == "assign":
            self.stmt(e[3], env)
            key = self.key(e[2])
            if e[1] == "=":
                val = self.ev(e[3], env)
            else:
                val = self.binop(e[1][:-1], self.ev(e[2], env), self.ev(e[3], env))
            if key is not None:
                self._set(env, key, val)
            else:
                # store to a[i] with variable index: forget all tracked elements of a
                r = lvalue_root(e[2])
                l = strip(e[2])
                if r is not None and kind(r) == "var":
                    self._havoc_root(env, r[1], True)
            return
        if k == "incdec":
            key = self.key(e[3])
            if key is not None:
                lo, hi = self.ev(e[3], env)
                d = 1 if e[1] == "++" else -1
                tl, th = self.type_range_key(key)
                if tl < 0:
                    # signed counter: overflow is undefined behaviour, so the step saturates instead of wrapping
                    # (keeps the untouched bound of a widened `while (i-- > 0)` counter)
                    self._set(env, key, (max(tl, lo + d), min(th, hi + d)))
                else:
                    self._set(env, key, (lo + d, hi + d))
            return
        if k == "call":
            for a in e[3]:
                self.stmt(a, env)
            cal = callee_name(e)
            for i, a in enumerate(e[3]):
                a = strip(a)
                if param_is_const_ptr(cal, i):
                    continue
                if kind(a) == "addr":
                    key = self.key(a[1])
                    if key is not None:
                        env.pop(key, None)
                    r = lvalue_root(a[1])
                    if r is not None and kind(r) == "var" and key is None:
                        self._havoc_root(env, r[1], True)
                elif kind(a) == "decay":
                    r = lvalue_root(a)
                    if r is not None and kind(r) == "var":
                        self._havoc_root(env, r[1], True)
                elif kind(a) == "var":
                    v = self.fn.vars.get(a[1])
                    if v and v.get("ptr") and not v.get("pointee_const"):
                        self._havoc_root(env, a[1], True)
            return
        for c in children(e):
            self.stmt(c, env)

    # ---------------- fixpoint
    def _join(self, a, b):
        if a is None:
            return dict(b)
        if b is None:
            return dict(a)
        out = {}
        for k in a:
            if k in b:
                out[k] = (min(a[k][0], b[k][0]), max(a[k][1], b[k][1]))
        return out

    def block_out(self, bid, env):
        env = dict(env)
        for el in self.fn.blocks[bid].elems:
            if el.top:
                self.stmt(el.e, env)
        return env

    def _solve(self):
        fn = self.fn
        order = fn.rpo()
        inn = {b: None for b in order}
        inn[fn.entry] = {}
        visits = {b: 0 for b in order}
        work = list(order)
        guard = 0
        dom = fn.dominators()
        # loop heads = targets of back edges; widening is applied only there
        heads = {s for s in order for p in fn.blocks[s].preds if p in dom and s in dom[p]}
        while work and guard < 20000:
            guard += 1
            b = work.pop(0)
            if inn[b] is None:
                continue
            out = self.block_out(b, inn[b])
            blk = fn.blocks[b]
            for (s, pol) in fn.succ_edges(b):
                if s is None or s not in inn:
                    continue
                e = out
                if pol is not None and blk.cond is not None:
                    e = self.refine(blk.cond, pol, out)
                    if e is None:
                        continue
                new = self._join(inn[s], e) if inn[s] is not None else dict(e)
                if inn[s] is None or new != inn[s]:
                    visits[s] += 1
                    if visits[s] > 3 and inn[s] is not None and s in heads:
                        # widen: keep only bounds that did not move
                        w = {}
                        for k, v in new.items():
                            old = inn[s].get(k)
                            if old is None:
                                continue
                            tl, th = self.type_range_key(k)
                            lo = old[0] if v[0] >= old[0] else tl
                            hi = old[1] if v[1] <= old[1] else th
                            if (lo, hi) != (tl, th):
                                w[k] = (lo, hi)
                        new = w
                        if new == inn[s]:
                            continue
                    inn[s] = new
                    if s not in work:
                        work.append(s)
        if guard >= 20000:
            raise AnalysisBroken("giv: no fixpoint in %s" % fn.name)
        self.inn = inn
        # narrowing pass: one more round using the refined edges without widening
        for _ in range(2):
            for b in order:
                if b == fn.entry or inn[b] is None:
                    continue
                acc = None
                for p in fn.blocks[b].preds:
                    if inn.get(p) is None:
                        continue
                    out = self.block_out(p, inn[p])
                    blk = fn.blocks[p]
                    for (s, pol) in fn.succ_edges(p):
                        if s != b:
                            continue
                        e = out
                        if pol is not None and blk.cond is not None:
                            e = self.refine(blk.cond, pol, out)
                            if e is None:
                                continue
                        acc = self._join(acc, e) if acc is not None else dict(e)
                if acc is not None:
                    inn[b] = acc

    def env_at(self, el):
        """Environment just before top-level element el executes."""
        env = self.inn.get(el.blk)
        if env is None:
            return None   # unreachable
        env = dict(env)
        for x in self.fn.blocks[el.blk].elems:
            if x is el:
                break
            if x.top:
                self.stmt(x.e, env)
        return env

    def interval_at(self, el, expr):
        env = self.env_at(el)
        if env is None:
            return None
        return self.ev(expr, env)


_cache = {}


def giv(prog, fname):
    k = (id(prog), fname)
    if k not in _cache:
        _cache[k] = Giv(prog.fn(fname), prog)
    return _cache[k]


def fmt(iv):
    if iv is None:
        return "unreachable"
    f = lambda v: "-inf" if v == -INF else ("+inf" if v == INF else (str(v) if abs(v) < 10 ** 7 else hex(v)))
    return "[%s, %s]" % (f(iv[0]), f(iv[1]))


if __name__ == "__main__":
    import sys
    prog = program("K0")
    for fname in sys.argv[1:] or ["secp256k1_whitelist_verify", "secp256k1_surjectionproof_parse"]:
        g = giv(prog, fname)
        f = prog.fn(fname)
        print("==", fname)
        for el, c in f.all_calls():
            n = callee_name(c)
            if n in ("memcpy", "memset", "secp256k1_borromean_verify", "secp256k1_borromean_sign"):
                env = g.env_at(el)
                print("  ", c[2], n, [fmt(g.ev(a, env)) if env is not None else "unreach" for a in c[3]])
                print("      env:", {k: fmt(v) for k, v in (env or {}).items()})
