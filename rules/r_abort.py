"""R-ABORT — the illegal-argument callback is not reachable from the *contents* of raw input bytes (C07).

Every ARG_CHECK / ARG_CHECK_VOID condition is examined by the parameter-rooted value flow: apart from plain NULL tests,
a condition whose value derives (even by computation) from what a `const unsigned char *` parameter of an exported
function points to would let a byte string abort the process.  Conditions on opaque library objects (a zeroed pubkey,
a wrong magic) are the documented caller contract and are not in scope.  Named exceptions: tables/abort_exceptions.json.
"""
from sxlib import *
from pflow import pflow
from core import Obligation, load_table


def obligations(prog):
    exc = load_table("abort_exceptions.json")
    pf = pflow(prog)
    obs = []
    used = set()
    n_sites = 0
    for f in prog.functions.values():
        for b in f.blocks.values():
            if b.term and any(m in ("ARG_CHECK", "ARG_CHECK_VOID") for m in b.term.get("macros", [])):
                n_sites += 1
    if n_sites < 300:
        raise AnalysisBroken("R-ABORT: only %d ARG_CHECK conditions found (floor 300)" % n_sites)
    for f in sorted(prog.exported(), key=lambda x: x.name):
        for j, s in sorted(pf.summary(f.name).items()):
            prm = f.params[j]
            if prm.get("pointee_canon") != "unsigned char":
                continue            # arrays of pointers: their elements are pointers, tested for NULL like any other
            locs = sorted({l for (o, k, l) in s if k == "abort_cond"})
            if not locs:
                continue
            key = "%s:%s" % (f.name, prm["name"])
            oid = "R-ABORT:%s" % key
            text = "the contents of the byte string %s must not decide whether the illegal-argument callback fires" % prm["name"]
            if key in exc:
                used.add(key)
                obs.append(Obligation("R-ABORT", oid, locs[0], f.name, text, True, "ARG_CHECK at %s depends on it; named exception" % ", ".join(locs), exception=exc[key]))
            else:
                obs.append(Obligation("R-ABORT", oid, locs[0], f.name, text, False,
                                      "the ARG_CHECK condition at %s is computed from the bytes %s points to: a crafted input invokes the illegal callback (abort by default)"
                                      % (", ".join(locs), prm["name"])))
    # one positive obligation per exported raw-bytes parser so that the evidence lists what was covered
    for f in sorted(prog.exported(), key=lambda x: x.name):
        raw = [p["name"] for p in f.params if p.get("pointee_canon") == "unsigned char" and p.get("pointee_const")]
        if raw and not any(o.fn == f.name for o in obs):
            obs.append(Obligation("R-ABORT", "R-ABORT:%s" % f.name, f.loc, f.name,
                                  "no ARG_CHECK condition reachable from %s depends on the contents of %s" % (f.name, ", ".join(raw)), True,
                                  "value flow finds no such condition"))
    stale = sorted(set(exc) - used - {"_comment"})
    if stale:
        raise AnalysisBroken("R-ABORT: exception entries that no longer apply: %s" % ", ".join(stale))
    return obs, {"arg_check_conditions": n_sites}


if __name__ == "__main__":
    obs, st = obligations(program("K0"))
    print(st, len(obs))
    for o in obs:
        if not o.ok or o.exception:
            print("VIOL" if not o.ok else "EXC ", o.oid, o.loc, o.detail[:200])
