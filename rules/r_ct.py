"""R-CT — secret independence (C06), engine irx (DESIGN §3.2, §5 C06).

The oracle is the maintainers' own secrecy specification, src/ctime_tests.c: irx analyses its `main`
linked with the library; every CHECKMEM_UNDEFINE taints bytes, every CHECKMEM_DEFINE and every
secp256k1_declassify clears them, and no tainted value may reach a sink (branch / switch condition,
load/store/memcpy address, memcpy/memset length, div/rem operand, indirect-call target) in any
function, on any path, in any calling context.  A second pass treats the context's blinding state as
secret from creation on (randomized contexts, which ctime_tests.c never signs with).
"""
import json
import os
import threading
import subprocess
import time
from concurrent.futures import ThreadPoolExecutor

import irbuild
import sxlib
from sxlib import AnalysisBroken, VERIF, WORK, REPO, callee_name
from core import Obligation

IRX = os.path.join(VERIF, "engines", "irx")
PROPS = {"C06"}

# floors: what the design-time reading of ctime_tests.c established (guards against a gutted oracle)
MIN_SOURCES = 30       # CHECKMEM_UNDEFINE marker executions reached from main (33 on the reviewed tree)
MIN_APIS = 30          # distinct library entry points called by run_tests
MIN_EXEC = 45000       # abstract function executions (K3 is the smallest: ~90k on the reviewed tree; a benign rewrite of
                       # secp256k1_sha256_finalize took it to 72k — the floor guards against a gutted oracle, not against edits)


def run_irx(ll, args, jout, timeout=1500):
    if not os.path.exists(IRX):
        raise AnalysisBroken("engines/irx not built (run MANIFEST.setup_cmd)")
    r = subprocess.run([IRX, ll] + args + ["--json", jout], stdout=subprocess.PIPE, stderr=subprocess.PIPE, text=True, timeout=timeout)
    if r.returncode != 0 or not os.path.exists(jout):
        raise AnalysisBroken("irx failed (%s): %s" % (" ".join(args), (r.stderr or r.stdout)[-1500:]))
    with open(jout) as f:
        return json.load(f)


def fixture_control():
    """The engine must report the four seeded sinks of fixtures/ct_fixture.c and nothing after declassification."""
    os.makedirs(WORK, exist_ok=True)
    ll = os.path.join(WORK, "ct_fixture.%d.%d.ll" % (os.getpid(), threading.get_ident()))
    src = os.path.join(VERIF, "fixtures", "ct_fixture.c")
    r = subprocess.run(["clang-14", "-O0", "-Xclang", "-disable-O0-optnone", "-g", "-S", "-emit-llvm", src, "-o", ll],
                       stdout=subprocess.PIPE, stderr=subprocess.PIPE, text=True)
    if r.returncode != 0:
        raise AnalysisBroken("cannot compile ct_fixture.c: " + r.stderr[-500:])
    ll2 = ll + ".prep.ll"
    subprocess.run(["opt-14", "-S", "-passes=" + irbuild.PREP_PASSES, ll, "-o", ll2], check=True)
    jo = ll + ".json"
    try:
        d = run_irx(ll2, ["--root", "main"], jo)
    finally:
        for p in (ll, ll2):
            if os.path.exists(p):
                os.remove(p)
    if os.path.exists(jo):
        os.remove(jo)
    funcs = {s["function"] for s in d["sinks"]}
    want = {"sink_branch", "sink_address", "sink_division", "sink_length"}
    if not want <= funcs or "clean_after_declassify" in funcs:
        raise AnalysisBroken("irx positive control failed: sinks reported in %s, expected %s and not clean_after_declassify" % (sorted(funcs), sorted(want)))
    return len(d["sinks"])


def api_calls(config):
    """Library entry points called from run_tests() of ctime_tests.c (from the clang AST)."""
    p = sxlib.Program(sxlib.extract(config, "ctime_tests.c"))
    f = p.functions.get("run_tests")
    if f is None:
        raise AnalysisBroken("src/ctime_tests.c has no run_tests() any more")
    apis = {}
    for el, c in f.all_calls():
        n = callee_name(c)
        if n and n.startswith("secp256k1_") and n in p.protos:
            apis.setdefault(n, c[2])
    return apis


VARIANTS_UNIT = "@ct_variants.c"      # /verif/fixtures/ct_variants.c: public-parameter variations of the maintainers' harness


def variant_api_calls(config):
    """Library entry points called from variants() / main() of fixtures/ct_variants.c."""
    p = sxlib.Program(sxlib.extract(config, os.path.join(VERIF, "fixtures", VARIANTS_UNIT[1:])))
    apis = {}
    for fn in ("variants", "main"):
        f = p.functions.get(fn)
        if f is None:
            raise AnalysisBroken("fixtures/ct_variants.c has no %s() any more" % fn)
        for el, c in f.all_calls():
            n = callee_name(c)
            if n and n.startswith("secp256k1_") and n in p.protos:
                apis.setdefault(n, c[2])
    return apis


def analyse(config, tier, opt="O0"):
    ll = irbuild.build(config, units=("ctime_tests.c", "secp256k1.c"), opt=opt)
    runs = [("plain", ["--root", "main"], ll), ("randomized-context", ["--root", "main", "--taint-blinding"], ll)]
    if opt == "O0":
        llv = irbuild.build(config, units=(VARIANTS_UNIT, "secp256k1.c"), opt=opt)
        runs.append(("variants", ["--root", "main"], llv))
    res = {}
    def one(r):
        name, args, mod = r
        jo = os.path.join(WORK, "irx.%s.%s.%d.json" % (config, name, os.getpid()))
        try:
            return name, run_irx(mod, args, jo)
        finally:
            if os.path.exists(jo):
                os.remove(jo)
    with ThreadPoolExecutor(max_workers=3) as ex:
        for name, d in ex.map(one, runs):
            res[name] = d
    return res


def obligations_for(config, tier):
    t0 = time.time()
    nctl = fixture_control()
    apis = api_calls(config)
    if len(apis) < MIN_APIS:
        raise AnalysisBroken("R-CT: run_tests() calls only %d library entry points (floor %d): the secrecy specification was gutted" % (len(apis), MIN_APIS))
    res = analyse(config, tier)
    plain = res["plain"]
    if plain["source_markers"] < MIN_SOURCES or plain["executions"] < MIN_EXEC:
        raise AnalysisBroken("R-CT: only %d secret markers / %d abstract executions reached from main (floors %d / %d)"
                             % (plain["source_markers"], plain["executions"], MIN_SOURCES, MIN_EXEC))
    if plain["unknown_externals"]:
        raise AnalysisBroken("R-CT: calls to external functions without a model: %s" % ", ".join(plain["unknown_externals"]))
    obs = []
    apis_main = apis
    apis_var = variant_api_calls(config)
    if len(apis_var) < 20:
        raise AnalysisBroken("R-CT: fixtures/ct_variants.c calls only %d library entry points (floor 20)" % len(apis_var))
    if res["variants"]["source_markers"] < 15 or res["variants"]["unknown_externals"]:
        raise AnalysisBroken("R-CT: variants harness: %d secret markers reached, unmodelled externals %s"
                             % (res["variants"]["source_markers"], res["variants"]["unknown_externals"]))
    for mode, d in sorted(res.items()):
        apis = apis_var if mode == "variants" else apis_main
        by_api = {}
        orphan = []
        for s in d["sinks"]:
            chain = [x.strip() for x in s["chain"].split(">") if x.strip()]
            api = next((x for x in chain if x in apis), None)
            if api is None:
                orphan.append(s)
            else:
                by_api.setdefault(api, []).append(s)
        for api, loc in sorted(apis.items()):
            sinks = by_api.get(api, [])
            oid = "R-CT:%s:%s" % (mode, api)
            text = ("no value derived from a secret marked in %s%s may steer a branch, an address, a copy length, a division or an "
                    "indirect call anywhere under %s" % ("fixtures/ct_variants.c (optional arguments present, explicit nonce functions with caller data, 2 and 3 "
                                                         "MuSig signers with tweaks, context randomized through the API)" if mode == "variants" else "ctime_tests.c",
                                                         " or from the context's blinding state" if mode == "randomized-context" else "", api))
            if not sinks:
                obs.append(Obligation("R-CT", oid, loc.replace(REPO + "/", ""), api, text, True,
                                      "no sink in any function on any path in any calling context (%s pass)" % mode, props=PROPS))
            else:
                s = sinks[0]
                obs.append(Obligation("R-CT", oid, s["where"].replace(REPO + "/", ""), api, text, False,
                                      "%s at %s in %s; secret introduced at %s; call chain %s%s"
                                      % (s["kind"], s["where"].replace(REPO + "/", ""), s["function"], s["origin"].replace(REPO + "/", ""),
                                         s["chain"].strip(" >"), ("; +%d more sinks" % (len(sinks) - 1)) if len(sinks) > 1 else ""), props=PROPS))
        for i, s in enumerate(orphan):
            obs.append(Obligation("R-CT", "R-CT:%s:other#%d" % (mode, i + 1), s["where"].replace(REPO + "/", ""), s["function"],
                                  "no secret-dependent control flow or address outside the API calls either", False,
                                  "%s at %s in %s; origin %s; chain %s" % (s["kind"], s["where"], s["function"], s["origin"], s["chain"]), props=PROPS))
    o2_stats = {}
    if tier == "thorough":
        # the shipped optimisation level: the same three passes over the -O2 IR (after inlining the API boundaries are gone, so
        # one obligation per pass; F3 shows up here too and is matched by its own id)
        res2 = analyse(config, tier, opt="O2")
        # (the variants harness is not analysed at -O2: there secp256k1_declassify is inlined into a test of ctx->declassify,
        # and after the harness has randomized the context through the API the engine no longer knows that field's value —
        # both outcomes are explored and the one without declassification reports sinks that do not exist.  Engine limit, not
        # a finding; the two ctime_tests.c passes never write the context before the last call and are exact.)
        res2.pop("variants", None)
        for mode, d in sorted(res2.items()):
            if d["source_markers"] < (15 if mode == "variants" else MIN_SOURCES) or d["unknown_externals"]:
                raise AnalysisBroken("R-CT: -O2 %s pass reached only %d secret markers (externals %s)" % (mode, d["source_markers"], d["unknown_externals"]))
            known = [s for s in d["sinks"] if mode == "variants" and "secp256k1_ellswift" in s["chain"] + s["function"] and "ellswift_create" in s["chain"] + s["function"]]
            rest = [s for s in d["sinks"] if s not in known]
            o2_stats[mode] = {"executions": d["executions"], "source_markers": d["source_markers"], "sinks": len(d["sinks"])}
            text = "no secret-dependent branch, address, length, division or indirect call in the -O2 IR either (%s pass)" % mode
            if known:
                s = known[0]
                obs.append(Obligation("R-CT", "R-CT:variants:secp256k1_ellswift_create", s["where"].replace(REPO + "/", ""), "secp256k1_ellswift_create",
                                      text + " under secp256k1_ellswift_create", False, "%s at %s (-O2 IR); %d sinks" % (s["kind"], s["where"].replace(REPO + "/", ""), len(known)), props=PROPS))
            if rest:
                s = rest[0]
                obs.append(Obligation("R-CT", "R-CT:O2:%s" % mode, s["where"].replace(REPO + "/", ""), s["function"], text, False,
                                      "%s at %s in %s; secret introduced at %s; chain %s; %d sinks in all"
                                      % (s["kind"], s["where"].replace(REPO + "/", ""), s["function"], s["origin"].replace(REPO + "/", ""), s["chain"].strip(" >"), len(rest)), props=PROPS))
            else:
                obs.append(Obligation("R-CT", "R-CT:O2:%s" % mode, "src/ctime_tests.c" if mode != "variants" else "fixtures/ct_variants.c", "main", text, True,
                                      "no sink in %d abstract executions of the inlined module" % d["executions"], props=PROPS))
    st = {"config": config, "apis": len(apis), "positive_control_sinks": nctl, "O2": o2_stats,
          "plain": {k: plain[k] for k in ("executions", "instructions", "objects", "select_on_secret", "declassify_calls", "source_markers", "functions_in_module")},
          "randomized": {k: res["randomized-context"][k] for k in ("executions", "instructions", "select_on_secret")},
          "variants": {k: res["variants"][k] for k in ("executions", "instructions", "source_markers", "declassify_calls")}, "variant_apis": len(apis_var),
          "wall_s": round(time.time() - t0, 1)}
    return obs, st
