#!/usr/bin/env python3
"""seedscan — run the registered checks against every seeded change in /verif/seeded/<id>/patch.diff.

For each seed: git -C /repo apply patch.diff; ./check <property> (and optionally every check); git -C /repo checkout -- .
Records which check / rule / obligation reports it in seeded/<id>/meta.json and prints a table.
Refuses to run when /repo has uncommitted changes.
"""
import json
import os
import re
import subprocess
import sys

VERIF = os.path.dirname(os.path.dirname(os.path.abspath(__file__)))
REPO = "/repo"


def sh(cmd, **kw):
    return subprocess.run(cmd, stdout=subprocess.PIPE, stderr=subprocess.STDOUT, text=True, **kw)


def main():
    if sh(["git", "-C", REPO, "status", "--porcelain", "--untracked-files=no"]).stdout.strip():
        sys.exit("seedscan: /repo has uncommitted changes; refusing to run")
    allchecks = "--all" in sys.argv
    only = [a for a in sys.argv[1:] if not a.startswith("-")]
    seeds = sorted(d for d in os.listdir(os.path.join(VERIF, "seeded")) if os.path.exists(os.path.join(VERIF, "seeded", d, "patch.diff")))
    props = sorted(json.load(open(os.path.join(VERIF, "MANIFEST.json")))["checks"], key=lambda c: c["property_id"])
    pids = [c["property_id"] for c in props]
    rows = []
    for sd in seeds:
        if only and sd not in only:
            continue
        d = os.path.join(VERIF, "seeded", sd)
        mp = os.path.join(d, "meta.json")
        meta = json.load(open(mp)) if os.path.exists(mp) else {}
        prop = meta.get("property") or sd.split("-")[0]
        r = sh(["git", "-C", REPO, "apply", os.path.join(d, "patch.diff")])
        if r.returncode != 0:
            rows.append((sd, prop, "PATCH DOES NOT APPLY", ""))
            continue
        try:
            det = {}
            for pid in (pids if allchecks else [prop]):
                c = sh([os.path.join(VERIF, "check"), pid], cwd=VERIF)
                viol = re.findall(r"^(\S+): (R-[A-Z]+): in (\S+): (.*)$", c.stdout, re.M)
                det[pid] = {"exit": c.returncode, "violations": [{"loc": v[0], "rule": v[1], "function": v[2], "text": v[3][:300]} for v in viol][:6],
                            "n_violations": len(re.findall(r"^VIOLATION ", c.stdout, re.M))}
        finally:
            sh(["git", "-C", REPO, "checkout", "--", "."])
        meta["property"] = prop
        meta["detected_by"] = {p: v for p, v in det.items() if v["exit"] == 1}
        meta["own_check_exit"] = det[prop]["exit"]
        meta["own_check_rules"] = sorted({v["rule"] for v in det[prop]["violations"]})
        json.dump(meta, open(mp, "w"), indent=1)
        rows.append((sd, prop, {0: "MISSED", 1: "caught", 2: "ANALYSIS-BROKEN"}.get(det[prop]["exit"], "?"),
                     ", ".join(meta["own_check_rules"]) + ("; also " + ",".join(p for p in meta["detected_by"] if p != prop) if allchecks and len(meta["detected_by"]) > 1 else "")))
    for r in rows:
        print("%-8s %-4s %-16s %s" % r)
    # the unchanged tree must be silent again
    return 0


if __name__ == "__main__":
    sys.exit(main())
