"""R-SIB and R-BITS (DESIGN §4).

R-SIB   sibling agreement: constants that a writer and a reader (prover and verifier, parser and array capacity) must
        share are extracted from each site as the largest accepted value and must be equal within their group.
R-BITS  (a) every bit of the range-proof header byte is examined (union of the constant masks applied to it is 0xFF) and
            the listed "spare bits must be zero" rejections are present;
        (b) the listed wide quantities reach their serializer without a narrowing conversion, and the serializer covers
            all eight byte positions.
"""
from sxlib import *
from giv import Giv
from core import Obligation, AnalysisBroken

# group -> list of (kind, function, key / variable)
#   cond : largest value of `key` accepted by the comparisons of `key` with an integer constant in that function
#   array: number of elements of a local array
#   field: (struct, field, divisor, minus): capacity / divisor - minus
GROUPS = {
    "rangeproof exponent bound": ({"C09", "C10"}, [
        ("cond", "secp256k1_rangeproof_sign_impl", "exp"),
        ("cond", "secp256k1_rangeproof_getheader_impl", "*exp"),
    ]),
    "rangeproof mantissa / min_bits bound": ({"C09", "C10"}, [
        ("cond", "secp256k1_rangeproof_sign_impl", "min_bits"),
        ("cond", "secp256k1_rangeproof_getheader_impl", "*mantissa"),
    ]),
    "rangeproof minimum proof length": ({"C09", "C10"}, [
        ("condmin", "secp256k1_rangeproof_sign_impl", "*plen"),
        ("condmin", "secp256k1_rangeproof_getheader_impl", "plen"),
    ]),
    "whitelist key-count bound": ({"C16", "C07"}, [
        ("cond", "secp256k1_whitelist_sign", "n_keys"),
        ("cond", "secp256k1_whitelist_verify", "sig->n_keys"),
        ("cond", "secp256k1_whitelist_signature_parse", "sig->n_keys"),
        ("array", "secp256k1_whitelist_verify", "s"),
        ("array", "secp256k1_whitelist_verify", "pubs"),
        ("array", "secp256k1_whitelist_sign", "s"),
        ("array", "secp256k1_whitelist_sign", "pubs"),
        ("field", "secp256k1_whitelist_signature", "data", 32, 1),
    ]),
    "DER long-form minimum length": ({"C03"}, [
        ("condmin", "secp256k1_der_read_len", "*len"),     # `*len < 128` rejects a long form that the short form could carry
        ("maskeq0", "secp256k1_der_read_len", "b1"),       # `(b1 & 0x80) == 0`: the short form carries 0 .. 0x80 - 1
    ]),
    "surjection input-count bound": ({"C11", "C07"}, [
        ("cond", "secp256k1_surjectionproof_parse", "n_inputs"),
        ("field", "secp256k1_surjectionproof", "used_inputs", None, 0),   # bytes * 8
        ("field", "secp256k1_surjectionproof", "data", 32, 1),
    ]),
}


def _max_from_conds(f, key, want_min=False):
    """Largest (or, for want_min, smallest) value of `key` that the function's comparisons with constants let through."""
    vals = []
    # a local that is copied to / from the tested object stands for it (`n_keys = input[0]; sig->n_keys = n_keys;`)
    keys = {key}
    for el in f.elems():
        for x in walk(el.e):
            if kind(x) == "assign" and x[1] == "=":
                lk, rk = Giv.key(x[2]), Giv.key(x[3])
                if lk == key and rk is not None and kind(strip(x[3])) == "var":
                    keys.add(rk)
                elif rk == key and lk is not None and kind(strip(x[2])) == "var":
                    keys.add(lk)
    for b in f.blocks.values():
        if b.cond is None:
            continue
        c = strip(b.cond)
        neg = False
        while kind(c) == "un" and c[1] == "!":
            c = strip(c[2])
            neg = not neg
        if kind(c) != "bin" or c[1] not in ("<", ">", "<=", ">="):
            continue
        op, L, R = c[1], c[2], c[3]
        if Giv.key(R) in keys and int_val(L) is not None:
            op = {"<": ">", ">": "<", "<=": ">=", ">=": "<="}[op]
            L, R = R, L
        if Giv.key(L) not in keys or int_val(R) is None:
            continue
        C = int_val(R)
        if neg:
            op = {"<": ">=", ">": "<=", "<=": ">", ">=": "<"}[op]
        # the condition as written is the *rejecting* form for > / >= ... and the accepting form for < / <= (ARG_CHECK(n <= MAX) arrives negated)
        if not want_min:
            if op == ">":
                vals.append((C, b.term["loc"], show(b.cond)))
            elif op == ">=":
                vals.append((C - 1, b.term["loc"], show(b.cond)))
        else:
            if op == "<":
                vals.append((C, b.term["loc"], show(b.cond)))
            elif op == "<=":
                vals.append((C + 1, b.term["loc"], show(b.cond)))
    return vals


# formula groups: the remaining-length precheck `len - cursor < E` must use the same linear form E in every listed function
FORMULAS = {
    "rangeproof body-length formula": ({"C09", "C10", "C07"}, [
        ("secp256k1_rangeproof_sign_impl", "plen"),
        ("secp256k1_rangeproof_verify_impl", "plen"),
    ]),
}


def _formula_obligations(prog):
    from r_inb import lin
    obs = []
    for gname, (props, sites) in FORMULAS.items():
        forms = []
        for (fname, lv) in sites:
            f = prog.fn(fname)
            found = None
            for b in f.blocks.values():
                if b.cond is None:
                    continue
                c = strip(b.cond)
                if kind(c) == "bin" and c[1] == "<" and kind(strip(c[2])) == "bin" and strip(c[2])[1] == "-" and lv in vars_in(c[2]):
                    E = c[3]
                    if len(vars_in(E)) >= 2:        # the body formula mentions npub and rings; the 8-byte min-value check does not
                        found = (E, b.term["loc"])
            if found is None:
                forms.append((fname, None, f.loc, "no precheck of the form `%s - cursor < E` found" % lv))
            else:
                av = {}
                forms.append((fname, repr(lin(found[0], av)), found[1], show(found[0])))
        vals = {x[1] for x in forms}
        ok = len(vals) == 1 and None not in vals
        bad = next((x for x in forms if x[1] != forms[0][1] or x[1] is None), forms[0])
        obs.append(Obligation("R-SIB", "R-SIB:%s" % gname.replace(" ", "_"), bad[2], bad[0],
                              "prover and verifier must require the same number of remaining bytes (%s)" % gname, ok,
                              "; ".join("%s: %s" % (x[0], x[3]) for x in forms), props=props))
    return obs


def sib_obligations(prog):
    obs = _formula_obligations(prog)
    for gname, (props, sites) in GROUPS.items():
        vals = []
        for s in sites:
            if s[0] in ("cond", "condmin"):
                f = prog.fn(s[1])
                vs = _max_from_conds(f, s[2], want_min=(s[0] == "condmin"))
                if not vs:
                    vals.append((None, "%s: no comparison of %s with a constant found" % (s[1], s[2]), f.loc))
                for (v, loc, txt) in vs:
                    vals.append((v, "%s: `%s`" % (s[1], txt), loc))
            elif s[0] == "maskeq0":
                f = prog.fn(s[1])
                hit = False
                for b in f.blocks.values():
                    c = strip(b.cond) if b.cond is not None else None
                    if kind(c) == "bin" and c[1] in ("==", "!=") and is_int(c[3], 0) and kind(strip(c[2])) == "bin" and strip(c[2])[1] == "&" \
                            and Giv.key(strip(c[2])[2]) == s[2] and int_val(strip(c[2])[3]) is not None:
                        m = int_val(strip(c[2])[3])
                        vals.append((m, "%s: `%s` (values below %d take the short form)" % (s[1], show(b.cond), m), b.term["loc"]))
                        hit = True
                    elif kind(c) == "bin" and c[1] == "<" and Giv.key(c[2]) == s[2] and int_val(c[3]) is not None:
                        vals.append((int_val(c[3]), "%s: `%s`" % (s[1], show(b.cond)), b.term["loc"]))
                        hit = True
                if not hit:
                    vals.append((None, "%s: no short-form test of %s found" % (s[1], s[2]), f.loc))
            elif s[0] == "array":
                f = prog.fn(s[1])
                v = f.vars.get(s[2])
                if not v or "array_n" not in v:
                    vals.append((None, "%s: array %s vanished" % (s[1], s[2]), f.loc))
                else:
                    vals.append((v["array_n"], "%s: %s[%d]" % (s[1], s[2], v["array_n"]), f.loc))
            elif s[0] == "field":
                st = prog.structs.get(s[1]) or prog.structs.get("struct " + s[1])
                fl = next((x for x in (st or {}).get("fields", []) if x["name"] == s[2]), None)
                if not fl:
                    vals.append((None, "struct %s has no field %s" % (s[1], s[2]), "include/"))
                else:
                    cap = fl["bytes"]
                    v = (cap * 8) if s[3] is None else (cap // s[3] - s[4])
                    vals.append((v, "capacity of %s.%s (%d bytes)" % (s[1], s[2], cap), "include/"))
        good = [v for v in vals if v[0] is not None]
        distinct = sorted({v[0] for v in good})
        ok = len(distinct) == 1 and len(good) == len(vals)
        loc = next((v[2] for v in vals if v[0] is None or v[0] != (distinct[0] if distinct else None)), vals[0][2])
        obs.append(Obligation("R-SIB", "R-SIB:%s" % gname.replace(" ", "_"), loc, sites[0][1],
                              "all sites of the %s must agree" % gname, ok,
                              "; ".join("%s -> %s" % (v[1], v[0]) for v in vals), props=props))
    dm = divmod_obligations(prog)
    sg = signconv_obligations(prog)
    return obs + dm + sg, {"groups": len(GROUPS), "divmod_pairs": len(dm), "sign_convention_pairs": len(sg)}


# (writer of the one-bit y tag, reader that decompresses, properties): the writer derives the tag either from the quadratic
# residuosity of y (secp256k1_fe_is_square_var: generators, Pedersen commitments, range-proof and BP++ generator points) or from
# its parity (secp256k1_fe_is_odd: public keys, nonces, BP++ proof points); the reader must decompress with the matching primitive
SIGN_PAIRS = [
    ("secp256k1_generator_serialize", "secp256k1_generator_parse", {"C08", "C17"}),
    ("secp256k1_bppp_generators_serialize", "secp256k1_bppp_generators_parse", {"C19"}),
    ("secp256k1_pedersen_commitment_save", "secp256k1_pedersen_commitment_load", {"C08"}),
    ("secp256k1_rangeproof_serialize_point", "secp256k1_rangeproof_verify_impl", {"C09", "C10"}),
    ("secp256k1_bppp_serialize_pt", "secp256k1_bppp_parse_one_of_points", {"C19"}),
    ("secp256k1_eckey_pubkey_serialize33", "secp256k1_eckey_pubkey_parse", {"C01", "C12"}),
]
_SQUARE = "secp256k1_fe_is_square_var"
_ODD = "secp256k1_fe_is_odd"
_XQUAD = "secp256k1_ge_set_xquad"
_XO = "secp256k1_ge_set_xo_var"


def signconv_obligations(prog):
    g = prog.callgraph()

    def reach(fn):
        seen, stack = {fn}, [fn]
        while stack:
            for c in g.get(stack.pop(), ()):
                if c not in seen:
                    seen.add(c)
                    stack.append(c)
        return seen
    obs = []
    for (w, r, props) in SIGN_PAIRS:
        fw, fr = prog.fn(w), prog.fn(r)
        rw, rr = reach(w), reach(r)
        conv = "square" if _SQUARE in rw else ("odd" if _ODD in rw else None)
        if conv is None:
            raise AnalysisBroken("R-SIB sign convention: %s derives its y tag from neither %s nor %s" % (w, _SQUARE, _ODD))
        if conv == "square":
            # a direct user of the residue decompression other than the parity decompression (which is built on it)
            users = sorted(x for x in rr if x != _XO and _XQUAD in g.get(x, ()))
            ok = bool(users)
            det = "%s tags y by residuosity; %s decompresses with %s through %s" % (w, r, _XQUAD, ", ".join(users) or "NOTHING (parity decompression only: %s)" % (_XO in rr))
        else:
            ok = _XO in rr
            det = "%s tags y by parity; %s %s %s" % (w, r, "reaches" if ok else "does NOT reach", _XO)
        obs.append(Obligation("R-SIB", "R-SIB:sign-convention:%s" % r, fr.loc, r,
                              "the reader %s must decompress points with the y convention its writer %s uses" % (r, w), ok, det, props=props))
    return obs


def divmod_scan(prog):
    """{(function, variable): (quotient constants, remainder constants)} where the function splits one variable with a constant
    both ways: v / C or v >> s, and v % D or v & (D - 1)."""
    out = {}
    for f in prog.functions.values():
        if not f.blocks or not f.file.startswith("src/") or f.file.endswith("tests_impl.h") or \
                f.file.startswith(("src/bench", "src/tests", "src/testrand", "src/unit_test", "src/ctime", "src/precompute")):
            continue
        q, r = {}, {}
        for el in f.elems():
            if not el.top:
                continue
            for x in walk(el.e):
                if kind(x) == "bin" and x[1] in ("/", ">>", "%", "&") and int_val(x[3]) is not None:
                    k = Giv.key(x[2])
                    c = int_val(x[3])
                    if k is None or c <= 0:
                        continue
                    if x[1] == "/":
                        q.setdefault(k, set()).add(c)
                    elif x[1] == ">>" and c < 64:
                        q.setdefault(k, set()).add(1 << c)
                    elif x[1] == "%":
                        r.setdefault(k, set()).add(c)
                    elif x[1] == "&" and (c & (c + 1)) == 0:
                        r.setdefault(k, set()).add(c + 1)
        for k in set(q) & set(r):
            out[(f.name, k)] = (sorted(q[k]), sorted(r[k]), f)
    return out


def divmod_obligations(prog):
    """A quantity that is split into chunk index and offset within the chunk uses one chunk size for both (`len / 32` with
    `len % 32`, `i >> 3` with `i & 7`): frozen for the pairs that agree on the reviewed tree (tables/divmod.json)."""
    from core import load_table, props_of_function
    tab = load_table("divmod.json")["pairs"]
    cur = divmod_scan(prog)
    obs = []
    for ent in tab:
        k = (ent["function"], ent["variable"])
        if k not in cur:
            continue       # one of the two forms is gone (rewritten): nothing to compare
        qs, rs, f = cur[k]
        ok = set(qs) == set(rs)
        obs.append(Obligation("R-SIB", "R-SIB:divmod:%s:%s" % k, f.loc, f.name,
                              "%s splits %s into chunk index and offset: the divisor / shift and the modulus / mask must describe the same chunk size" % k,
                              ok, "quotient by %s, remainder by %s" % (qs, rs), props=props_of_function(f) | {"C07"}))
    return obs


# ------------------------------------------------------------------ R-BITS
HEADER = ("secp256k1_rangeproof_getheader_impl", "proof", {"C10"})
# (function, buffer param, operator that must appear in a rejecting condition reading the buffer, minimum count, properties, what)
SPARE_BITS = [
    ("secp256k1_rangeproof_getheader_impl", "proof", "&", 1, {"C10"}, "reserved header bit"),
    ("secp256k1_rangeproof_verify_impl", "proof", ">>", 1, {"C10"}, "spare sign bits"),
    ("secp256k1_surjectionproof_parse", "input", "&", 1, {"C11"}, "bitmap padding bits"),
]
# (function, wide variable, serializer callee, argument index, properties)
NO_NARROW = [
    ("secp256k1_musig_nonce_gen_counter", "nonrepeating_cnt", "secp256k1_write_be64", 1, {"C12", "C13"}),
    ("secp256k1_pedersen_commit", "value", "secp256k1_pedersen_ecmult", 3, {"C08"}),
    ("secp256k1_pedersen_ecmult", "value", "secp256k1_pedersen_ecmult_small", 1, {"C08"}),
    ("secp256k1_pedersen_ecmult_small", "gn", "secp256k1_pedersen_scalar_set_u64", 1, {"C08"}),
]


def _reads_buf(e, buf, aliases=()):
    return any((x[0] == "index" and kind(strip(x[1])) == "var" and strip(x[1])[1] == buf) or (x[0] == "var" and x[1] in aliases) for x in walk(e))


def _byte_aliases(f, buf):
    """Locals with a single definition that is one byte read from buf (`header = proof[*offset];`): they stand for that byte."""
    defs = {}
    for el in f.elems():
        for (n, op, rhs, via) in defs_in_elem(el.e):
            defs.setdefault(n, []).append((op, rhs, via))
    out = set()
    for n, ds in defs.items():
        if n in f.param_index or len(ds) != 1:
            continue
        op, rhs, via = ds[0]
        if op == "=" and via in ("assign", "decl") and rhs is not None and kind(strip(rhs)) == "index" and _reads_buf(rhs, buf):
            out.add(n)
    return out


def bits_obligations(prog):
    obs = []
    fname, buf, props = HEADER
    f = prog.fn(fname)
    masks = []
    hal = _byte_aliases(f, buf)
    for el in f.elems(top_only=False):
        for x in walk(el.e):
            if x[0] == "bin" and x[1] == "&":
                for a, b in ((x[2], x[3]), (x[3], x[2])):
                    if int_val(b) is not None and kind(strip(a)) == "var" and strip(a)[1] in hal:
                        masks.append((int_val(b), el.loc))
                    if int_val(b) is not None and _reads_buf(a, buf) and kind(strip(a)) == "index":
                        idx = strip(a)[2]
                        # only the header byte itself: proof[*offset] before any increment (index expression is exactly *offset)
                        if Giv.key(idx) is not None:
                            masks.append((int_val(b), el.loc))
    for b_ in f.blocks.values():
        if b_.cond is not None:
            for x in walk(b_.cond):
                if x[0] == "bin" and x[1] == "&":
                    for a, b in ((x[2], x[3]), (x[3], x[2])):
                        if int_val(b) is not None and ((kind(strip(a)) == "index" and _reads_buf(a, buf)) or (kind(strip(a)) == "var" and strip(a)[1] in hal)):
                            masks.append((int_val(b), b_.term["loc"]))
    union = 0
    for m, _ in masks:
        union |= m & 0xFF
    obs.append(Obligation("R-BITS", "R-BITS:header-byte:%s" % fname, f.loc, fname,
                          "every bit of the range-proof header byte must be examined (union of the masks applied to it == 0xFF)",
                          union == 0xFF and len(masks) >= 4,
                          "masks %s, union 0x%02X" % (sorted({m for m, _ in masks}), union), props=props))
    for (fname, buf, op, need, props, what) in SPARE_BITS:
        f = prog.fn(fname)
        found = []
        al = _byte_aliases(f, buf)
        for b_ in f.blocks.values():
            if b_.cond is None:
                continue
            hit = any(x[0] == "bin" and x[1] == op and (_reads_buf(x[2], buf, al) or _reads_buf(x[3], buf, al)) for x in walk(b_.cond))
            if not hit:
                continue
            rej = False
            for s in b_.succs:
                if s is None:
                    continue
                sb = f.blocks[s]
                if any(e2.top and kind(e2.e) == "return" and is_int(e2.e[1], 0) for e2 in sb.elems):
                    rej = True
            if rej:
                found.append("`%s` at %s" % (show(b_.cond)[:70], b_.term["loc"]))
        obs.append(Obligation("R-BITS", "R-BITS:spare:%s:%s" % (fname, what.replace(" ", "_")), f.loc, fname,
                              "%s of %s must be tested and a non-zero value rejected" % (what, buf), len(found) >= need,
                              "%d rejecting test(s): %s" % (len(found), "; ".join(found) or "none"), props=props))
    for (fname, var, callee, ai, props) in NO_NARROW:
        f = prog.fn(fname)
        if var not in f.vars:
            raise AnalysisBroken("R-BITS: %s has no variable %s any more" % (fname, var))
        sites = [(el, c) for el, c in f.all_calls() if callee_name(c) == callee]
        if not sites and callee == "secp256k1_write_be64":
            # serialised some other way (two 32-bit stores, ..): the first eight bytes of the buffer must still be the value
            from r_hash import be_region
            from limbs import Undecided, padd, patom
            oid = "R-BITS:wide:%s:%s" % (fname, var)
            text = "the 64-bit quantity %s must be serialised big-endian at full width" % var
            try:
                arr, tot, L = be_region(prog, f, 8, lambda key: (1 << 64) - 1 if key == var else None)
                if var not in L.inputs:
                    obs.append(Obligation("R-BITS", oid, f.loc, fname, text, False, "the big-endian stores into %s do not depend on %s" % (arr, var), props=props))
                else:
                    wrong, dropped, unk = L.residual_report(padd(tot, patom(L.inputs[var]), -1))
                    ok = not wrong and not dropped and not unk
                    obs.append(Obligation("R-BITS", oid, f.loc, fname, text, ok,
                                          "bytes 0..7 of %s, as stored by the big-endian word stores (last writer per byte), %s %s" % (arr, "are" if ok else "are NOT", var), props=props))
            except Undecided as ex:
                obs.append(Obligation("R-BITS", oid, f.loc, fname, text, True, "NOT DECIDED: no call of %s and %s" % (callee, ex), props=props))
            continue
        if not sites:
            obs.append(Obligation("R-BITS", "R-BITS:wide:%s:%s" % (fname, var), f.loc, fname,
                                  "%s must reach %s at full width" % (var, callee), False, "no call to %s left" % callee, props=props))
            continue
        for i, (el, c) in enumerate(sites):
            a = c[3][ai] if ai < len(c[3]) else None
            narrowed = any(x[0] == "narrow" for x in walk(a)) if a is not None else True
            plain = kind(strip(a)) == "var" and strip(a)[1] == var and not narrowed
            modified = any(n == var for el2 in f.elems() for (n, op, rhs, via) in defs_in_elem(el2.e))
            ok = plain and not modified
            obs.append(Obligation("R-BITS", "R-BITS:wide:%s:%s#%d" % (fname, var, i + 1), c[2], fname,
                                  "the %d-bit quantity %s must reach %s unmodified and without a narrowing conversion" % (f.vars[var].get("int_bits", 64), var, callee),
                                  ok, "argument is `%s`%s%s" % (show(a), " (narrowed)" if narrowed else "", " and %s is reassigned in the function" % var if modified else ""),
                                  props=props))
    # serializer coverage: secp256k1_write_be64 stores p[0..7] from shifts {0,8,..,56}
    f = prog.fn("secp256k1_write_be64")
    stores = {}
    for el in f.elems():
        x = el.e
        if kind(x) == "assign" and kind(strip(x[2])) == "index":
            idx = int_val(strip(x[2])[2])
            r = strip(x[3])
            while kind(r) == "narrow":
                r = strip(r[3])
            sh = 0
            if kind(r) == "bin" and r[1] == ">>" and int_val(r[3]) is not None:
                sh = int_val(r[3])
            stores[idx] = sh
    ok = stores == {7 - k: 8 * k for k in range(8)}
    obs.append(Obligation("R-BITS", "R-BITS:write_be64", f.loc, f.name,
                          "secp256k1_write_be64 must write all eight bytes, byte k from bits 8(7-k)..8(7-k)+7", ok,
                          "stores %s" % sorted(stores.items()), props={"C12", "C13", "C05"}))
    # serializer coverage: secp256k1_pedersen_scalar_set_u64 emits the 8 bytes of value into data[24..32), top byte first
    f = prog.fn("secp256k1_pedersen_scalar_set_u64")
    from giv import giv as _giv, fmt as _fmt
    g = _giv(prog, f.name)
    idx_iv = None
    for el in f.elems():
        x = el.e
        if kind(x) == "assign" and kind(strip(x[2])) == "index" and any(y[0] == "bin" and y[1] == ">>" for y in walk(x[3])):
            env = g.env_at(el)
            if env is not None:
                idx_iv = g.ev(strip(x[2])[2], env)
    shr = sorted({int_val(x[3]) for el in f.elems() for x in walk(el.e) if x[0] == "bin" and x[1] == ">>" and int_val(x[3]) is not None})
    shl = sorted({int_val(x[3]) for el in f.elems() for x in walk(el.e) if x[0] == "assign" and x[1] == "<<=" and int_val(x[3]) is not None})
    ok = idx_iv == (24, 31) and shr == [56] and shl == [8]
    obs.append(Obligation("R-BITS", "R-BITS:pedersen_scalar_set_u64", f.loc, f.name,
                          "the 64-bit value must be serialised into exactly the last 8 of 32 bytes, most significant byte first", ok,
                          "byte index of the emitting store ranges over %s, right shifts %s, left-shift steps %s" % (_fmt(idx_iv), shr, shl), props={"C08"}))
    return obs, {"masks": len(masks)}


if __name__ == "__main__" and len(__import__("sys").argv) > 1 and __import__("sys").argv[1] == "regen-divmod":
    import json
    cur = divmod_scan(program("K0"))
    pairs = [{"function": k[0], "variable": k[1], "chunk": v[0]} for k, v in sorted(cur.items()) if set(v[0]) == set(v[1])]
    json.dump({"_comment": "R-SIB divmod: (function, variable) split by one constant both ways on the reviewed tree (python3 rules/r_sib.py regen-divmod).",
               "pairs": pairs}, open(os.path.join(VERIF, "tables", "divmod.json"), "w"), indent=0)
    print("frozen", len(pairs), "pairs")
elif __name__ == "__main__":
    prog = program("K0")
    for fn_ in (sib_obligations, bits_obligations):
        obs, st = fn_(prog)
        print(fn_.__name__, st)
        for o in obs:
            print("  ", "OK  " if o.ok else "VIOL", o.oid, o.loc, o.detail[:260])
