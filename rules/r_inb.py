"""R-INB — reads of a length-described input buffer stay inside it (C07), DESIGN §4 (added in the build phase).

For a function with a (pointer, length) parameter pair, every read `ptr[E]` and every consumer call that is handed
`&ptr[A]` together with a byte count n must be dominated by a guard that establishes `len >= E + 1` (resp. `len >= A + n`).
Guards and uses are compared as linear forms over opaque atoms (a small symbolic prover, no numeric model): the guard
`inputlen < 2 + (n_inputs + 7) / 8 -> return 0` proves the read `input[2 + (n_inputs + 7) / 8 - 1]`.  Atoms must not be
redefined between the guard and the use.  Instances that prove on the reviewed tree are armed (tables/inb_sites.json);
an armed instance that stops proving is a violation; unprovable sites are listed as not armed.
"""
from sxlib import *
from giv import giv, Giv, INF
from core import Obligation, load_table

# (function, pointer param, length param, properties)
PAIRS = [
    ("secp256k1_surjectionproof_parse", "input", "inputlen", {"C07", "C11"}),
    ("secp256k1_whitelist_signature_parse", "input", "input_len", {"C07", "C16"}),
    ("secp256k1_schnorrsig_aggverify", "aggsig", "aggsig_len", {"C07", "C17"}),
    ("secp256k1_bppp_generators_parse", "data", "data_len", {"C07", "C19"}),
    ("secp256k1_bppp_rangeproof_norm_product_verify", "proof", "proof_len", {"C07", "C19"}),
    ("secp256k1_rangeproof_getheader_impl", "proof", "plen", {"C07", "C10"}),
    ("secp256k1_rangeproof_verify_impl", "proof", "plen", {"C07", "C10"}),
    ("secp256k1_eckey_pubkey_parse", "pub", "size", {"C07", "C03"}),
    ("secp256k1_ec_pubkey_parse", "input", "inputlen", {"C07", "C03"}),
]

# consumers: callee -> (pointer arg index, byte count: int constant or ("arg", index))
CONSUMERS = {
    "secp256k1_scalar_set_b32": (1, 32), "secp256k1_scalar_set_b32_seckey": (1, 32),
    "secp256k1_fe_set_b32_limit": (1, 32), "secp256k1_fe_set_b32_mod": (1, 32),
    "secp256k1_read_be32": (0, 4), "secp256k1_read_be64": (0, 8),
    "secp256k1_count_bits_set": (0, ("arg", 1)),
    "secp256k1_sha256_write": (2, ("arg", 3)),
    "secp256k1_generator_parse": (2, 33),
    "secp256k1_eckey_pubkey_parse": (1, ("arg", 2)),
    "secp256k1_bppp_parse_one_of_points": (1, 65),
    "memcpy": (1, ("arg", 2)), "memcmp": (0, ("arg", 2)), "secp256k1_memcmp_var": (0, ("arg", 2)),
}


class Lin:
    """c + sum(coef * atom)"""

    def __init__(self, c=0, atoms=None):
        self.c = c
        self.a = dict(atoms or {})

    def add(self, o, k=1):
        r = Lin(self.c + k * o.c, self.a)
        for t, v in o.a.items():
            r.a[t] = r.a.get(t, 0) + k * v
            if r.a[t] == 0:
                del r.a[t]
        return r

    def scale(self, k):
        return Lin(self.c * k, {t: v * k for t, v in self.a.items() if v * k != 0})

    def __repr__(self):
        return " + ".join(["%d" % self.c] + ["%d*%s" % (v, t) for t, v in sorted(self.a.items())])


def lin(e, atomvars):
    """Linear form of expression e; opaque sub-expressions become atoms (their variables recorded in atomvars)."""
    e0 = e
    e = strip(e)
    k = kind(e)
    if k == "int":
        return Lin(int(e[1]))
    if k == "bin" and e[1] in ("+", "-"):
        return lin(e[2], atomvars).add(lin(e[3], atomvars), 1 if e[1] == "+" else -1)
    if k == "bin" and e[1] == "*":
        a, b = int_val(e[2]), int_val(e[3])
        if a is not None:
            return lin(e[3], atomvars).scale(a)
        if b is not None:
            return lin(e[2], atomvars).scale(b)
    if k == "bin" and e[1] == "<<" and int_val(e[3]) is not None and 0 <= int_val(e[3]) < 32:
        return lin(e[2], atomvars).scale(1 << int_val(e[3]))
    name = show(e)
    atomvars.setdefault(name, set()).update(vars_in(e))
    return Lin(0, {name: 1})


def _defs_of(fn, var):
    out = []
    for b in fn.blocks.values():
        for el in b.elems:
            if el.top:
                for (n, op, rhs, via) in defs_in_elem(el.e):
                    if n == var:
                        out.append(b.id)
                # stores through pointers: *p = ..., p->f = ...
                for x in walk(el.e):
                    if x[0] in ("assign", "incdec"):
                        tgt = x[2] if x[0] == "assign" else x[3]
                        r = lvalue_root(tgt)
                        if r is not None and kind(r) == "var" and r[1] == var and kind(strip(tgt)) != "var":
                            out.append(b.id)
    return out


def facts_for(fn, blk, lenv):
    """[(Lin L, guard block, atomvars)] with the meaning  len >= L  on every path to block blk."""
    dom = fn.dominators()
    facts = []
    for d in dom.get(blk, ()):
        b = fn.blocks[d]
        if d == blk or b.cond is None or len(b.succs) != 2:
            continue
        # which edge leads to blk?
        pols = []
        for (s, pol) in fn.succ_edges(d):
            if s is None:
                continue
            if s == blk or s in dom.get(blk, ()) :
                pols.append(pol)
        if len(pols) != 1 or pols[0] is None:
            continue
        pol = pols[0]
        c = strip(b.cond)
        while kind(c) == "un" and c[1] == "!":
            c = strip(c[2])
            pol = not pol
        if kind(c) != "bin" or c[1] not in ("<", ">", "<=", ">=", "==", "!="):
            continue
        op = c[1]
        if not pol:
            op = {"<": ">=", ">": "<=", "<=": ">", ">=": "<", "==": "!=", "!=": "=="}[op]
        av = {}
        d_ = lin(c[2], av).add(lin(c[3], av), -1)       # A - B  op  0
        coef = d_.a.get(lenv, 0)
        if coef not in (1, -1):
            continue
        rest = Lin(d_.c, {t: v for t, v in d_.a.items() if t != lenv})
        if coef == 1:
            # len + rest op 0  ->  len op -rest
            bound = rest.scale(-1)
            if op in (">=", "=="):
                facts.append((bound, d, av))
            elif op == ">":
                facts.append((bound.add(Lin(1)), d, av))
            elif op == "!=" and not bound.a and bound.c == 0:
                facts.append((Lin(1), d, av))       # unsigned length known to be non-zero
        else:
            # -len + rest op 0 -> len (flip op) rest
            bound = rest
            if op in ("<=", "=="):
                facts.append((bound, d, av))
            elif op == "<":
                facts.append((bound.add(Lin(1)), d, av))
    return facts


def _stable(fn, names, guard_blk, use_blk):
    """No variable in `names` is (re)defined on a path from the guard block to the use block."""
    between = fn.reachable_from(guard_blk)
    for v in names:
        for db in _defs_of(fn, v):
            if db in between and (use_blk in fn.reachable_from(db) or db == use_blk):
                return False
    return True


def prove(fn, g, el, need, lenv, need_vars):
    """need: Lin, the number of bytes that must be available (len >= need)."""
    if set(need.a) == {lenv} and need.a[lenv] == 1 and need.c <= 0:
        return "trivially within %s" % lenv
    for (L, gb, av) in facts_for(fn, el.blk, lenv):
        diff = L.add(need, -1)
        names = set(need_vars)
        for t in list(L.a) + list(need.a):
            names |= av.get(t, set())
        if not _stable(fn, names, gb, el.blk):
            continue
        if all(v > 0 for v in diff.a.values()) and diff.c >= 0:
            return "guard at %s gives %s >= %s" % (fn.blocks[gb].term["loc"], lenv, L)
        if not diff.a and diff.c >= 0:
            return "guard at %s gives %s >= %s" % (fn.blocks[gb].term["loc"], lenv, L)
    # numeric fallback: interval of len vs interval of need
    return None


def scan(prog):
    out = []
    for (fname, ptr, lenv, props) in PAIRS:
        f = prog.functions.get(fname)
        if f is None:
            raise AnalysisBroken("R-INB: function %s vanished" % fname)
        if ptr not in f.param_index or lenv not in f.param_index:
            raise AnalysisBroken("R-INB: %s lost its parameters %s / %s" % (fname, ptr, lenv))
        g = giv(prog, fname)
        sites = []
        for el in f.elems(top_only=False):
            # use the finest CFG element that contains the read, so that short-circuit guards count
            pass
        seen = set()
        for b in f.blocks.values():
            for el in b.elems:
                for x in walk(el.e) if el.top else []:
                    pass
        # collect reads per finest element: iterate all elements (nested ones first in their own blocks)
        for b in f.blocks.values():
            for el in b.elems:
                e = el.e
                cands = []
                def visit(x, under_addr):
                    k = kind(x)
                    if k == "addr":
                        for c in children(x):
                            visit(c, True)
                        return
                    if k == "index" and kind(strip(x[1])) == "var" and strip(x[1])[1] == ptr:
                        if not under_addr:
                            cands.append(("read", x, x[2], 1))
                        visit(x[2], False)
                        return
                    if k == "call":
                        cal = callee_name(x)
                        if cal in CONSUMERS:
                            pi, cnt = CONSUMERS[cal]
                            if pi < len(x[3]):
                                a = strip(x[3][pi])
                                off = None
                                if kind(a) == "var" and a[1] == ptr:
                                    off = ["int", "0", 64]
                                elif kind(a) == "addr" and kind(strip(a[1])) == "index" and kind(strip(strip(a[1])[1])) == "var" and strip(strip(a[1])[1])[1] == ptr:
                                    off = strip(a[1])[2]
                                elif kind(a) == "bin" and a[1] == "+" and kind(strip(a[2])) == "var" and strip(a[2])[1] == ptr:
                                    off = a[3]
                                if off is not None:
                                    n = cnt if isinstance(cnt, int) else (x[3][cnt[1]] if cnt[1] < len(x[3]) else None)
                                    if n is not None:
                                        cands.append(("call:" + cal, x, off, n))
                        for c in children(x):
                            visit(c, False)
                        return
                    for c in children(x):
                        visit(c, under_addr)
                visit(e, False)
                for (kd, x, off, n) in cands:
                    key = (kd, json.dumps(x))
                    # keep the occurrence in the finest element (non-top elements are sub-expressions in their own block)
                    sites.append((el, kd, x, off, n, key))
        # de-duplicate: the same expression appears in a nested element and in its parents; keep the non-top / first-evaluated one
        best = {}
        for (el, kd, x, off, n, key) in sites:
            cur = best.get(key)
            rank = (0 if not el.top else 1, len(json.dumps(el.e)))
            if cur is None or rank < cur[0]:
                best[key] = (rank, el, kd, x, off, n)
        cnt = {}
        ordered = sorted(best.values(), key=lambda t: (int(t[1].loc.rsplit(":", 1)[1]), t[2]))
        for (rank, el, kd, x, off, n) in ordered:
            av = {}
            need = lin(off, av).add(Lin(n) if isinstance(n, int) else lin(n, av))
            nv = set()
            for t in need.a:
                nv |= av.get(t, set())
            why = prove(f, g, el, need, lenv, nv)
            idb = "R-INB:%s:%s" % (fname, kd)
            cnt[idb] = cnt.get(idb, 0) + 1
            out.append({"id": "%s#%d" % (idb, cnt[idb]), "fn": fname, "loc": el.loc, "props": props,
                        "text": "%s of %s at offset %s (%s bytes) must lie inside the %s bytes described by %s"
                                % ("read" if kd == "read" else kd[5:], ptr, show(off), n if isinstance(n, int) else show(n), lenv, lenv),
                        "proved": why is not None, "detail": why or ("no dominating guard establishes %s >= %s" % (lenv, need))})
    return out


def obligations(prog):
    from core import armed_group_obligations
    tab = load_table("inb_sites.json")
    groups = tab["groups"]
    sites = scan(prog)
    for s in sites:
        s["idbase"] = s["id"].rsplit("#", 1)[0]
    obs = armed_group_obligations("R-INB", sites, groups, unproved=tab.get("unproved"))
    return obs, {"sites": len(sites), "armed_groups": len(groups), "armed_sites": sum(groups.values()),
                 "not_provable_sites": [s["id"] + " @" + s["loc"] + ": " + s["detail"] for s in sites if not s["proved"]]}


if __name__ == "__main__":
    import sys
    prog = program("K0")
    sites = scan(prog)
    if len(sys.argv) > 1 and sys.argv[1] == "regen":
        groups, unp = {}, {}
        for s in sites:
            b = s["id"].rsplit("#", 1)[0]
            if s["proved"]:
                groups[b] = groups.get(b, 0) + 1
            else:
                unp[b] = unp.get(b, 0) + 1
        json.dump({"_comment": "R-INB: per (function, read kind) the number of sites proved / not proved on the reviewed tree (python3 rules/r_inb.py regen).",
                   "groups": dict(sorted(groups.items())), "unproved": {k: v for k, v in sorted(unp.items()) if k in groups}}, open(os.path.join(VERIF, "tables", "inb_sites.json"), "w"), indent=0)
    for s in sites:
        print("PROVED " if s["proved"] else "UNPROVED", s["id"], s["loc"], "|", s["text"][:90], "|", s["detail"][:110])
    print(sum(1 for s in sites if s["proved"]), "proved of", len(sites))
