"""R-NULL — an optional pointer parameter is never dereferenced without its NULL test (contradiction rule).

If a function tests a pointer parameter for NULL anywhere (`if (p)`, `p != NULL`, `ARG_CHECK(p != NULL)`, an operand of
`&&` / `||`), the function believes p may be NULL.  Then every dereference of p (`*p`, `p[i]`, `p->m`) must be dominated
by the non-NULL outcome of such a test.  Parameters for which this holds at every dereference on the reviewed tree are
armed (tables/null_params.json); an armed parameter with an unguarded dereference is a violation — somebody dropped an
`if (outlen)` in one exit while every other exit still guards it.

Not armed (and listed in the evidence): parameters whose guard is correlated with another flag rather than dominating
(`if (ok) *outlen = n;` where ok implies outlen != NULL) — dominance cannot see that, so they never alarm.
"""
from sxlib import *
from core import Obligation, load_table, props_of_function


def _null_test(c):
    """(param name, polarity) if condition c tests a plain variable for NULL: polarity True means `c true => var != NULL`."""
    c = strip(c)
    pol = True
    while kind(c) == "un" and c[1] == "!":
        c = strip(c[2])
        pol = not pol
    if kind(c) == "var":
        return c[1], pol
    if kind(c) == "bin" and c[1] in ("==", "!="):
        for a, b in ((c[2], c[3]), (c[3], c[2])):
            if is_int(b, 0) and kind(strip(a)) == "var":
                return strip(a)[1], (pol if c[1] == "!=" else not pol)
    return None


def _derefs(e, name):
    """Sub-expressions of e that dereference variable `name` directly."""
    out = []
    for x in walk(e):
        k = kind(x)
        if k == "deref" and kind(strip(x[1])) == "var" and strip(x[1])[1] == name:
            out.append(x)
        elif k == "index" and kind(strip(x[1])) == "var" and strip(x[1])[1] == name:
            out.append(x)
    return out


def scan(prog):
    """[{fn, param, derefs: [(loc, guarded)], tests: n}] for pointer parameters that are NULL-tested in their function."""
    res = []
    for f in sorted(prog.functions.values(), key=lambda x: x.name):
        if not f.blocks or not f.file.startswith("src/") or f.file.endswith("tests_impl.h") or \
                f.file.startswith(("src/bench", "src/tests", "src/testrand", "src/unit_test", "src/ctime", "src/precompute")):
            continue
        ptrs = [p["name"] for p in f.params if p.get("ptr")]
        if not ptrs:
            continue
        tests = {}
        for b in f.blocks.values():
            if b.cond is None:
                continue
            t = _null_test(b.cond)
            if t and t[0] in ptrs:
                edges = f.succ_edges(b.id)
                nn = [s for (s, pol) in edges if s is not None and pol is not None and (pol == t[1])]
                tests.setdefault(t[0], []).append((b.id, nn))
        if not tests:
            continue
        assigned = set()
        for el in f.elems():
            for (n, op, rhs, via) in defs_in_elem(el.e):
                if n in tests and via in ("assign", "incdec"):
                    assigned.add(n)
        dom = f.dominators()
        for p, tl in sorted(tests.items()):
            if p in assigned:
                continue
            ds = []
            seen = set()
            for b in f.blocks.values():
                for el in b.elems:
                    for x in _derefs(el.e, p) if el.top else []:
                        key = (el.loc, repr(x))
                        if key in seen:
                            continue
                        seen.add(key)
                        # the block in which the dereference is evaluated: the finest element that contains it
                        blk = el.blk
                        for el2 in f.elems():
                            if not el2.top and el2.e is x:
                                blk = el2.blk
                        guarded = any(s == blk or s in dom.get(blk, ()) for (_, nn) in tl for s in nn)
                        ds.append((el.loc, guarded, show(x)))
            if ds:
                res.append({"fn": f.name, "param": p, "derefs": ds, "tests": len(tl), "props": props_of_function(f) | {"C07"}, "loc": f.loc})
    return res


def _finest_blocks(f):
    return None


def obligations(prog):
    tab = load_table("null_params.json")["armed"]
    armed = {(a["function"], a["param"]) for a in tab}
    sites = scan(prog)
    obs = []
    seen = set()
    not_armed = []
    for s in sites:
        k = (s["fn"], s["param"])
        bad = [d for d in s["derefs"] if not d[1]]
        if k not in armed:
            if bad:
                not_armed.append("%s:%s (%d of %d dereferences not dominated by its NULL test)" % (s["fn"], s["param"], len(bad), len(s["derefs"])))
            continue
        seen.add(k)
        text = "%s tests its parameter %s for NULL, so every dereference of %s must be dominated by the non-NULL outcome of such a test" % (s["fn"], s["param"], s["param"])
        if bad:
            obs.append(Obligation("R-NULL", "R-NULL:%s:%s" % k, bad[0][0], s["fn"], text, False,
                                  "`%s` at %s is reachable with %s == NULL (%d of %d dereferences unguarded)" % (bad[0][2], bad[0][0], s["param"], len(bad), len(s["derefs"])),
                                  props=s["props"]))
        else:
            obs.append(Obligation("R-NULL", "R-NULL:%s:%s" % k, s["loc"], s["fn"], text, True,
                                  "%d dereference(s), all guarded; %d NULL test(s)" % (len(s["derefs"]), s["tests"]), props=s["props"]))
    nc, nst = nullcount_obligations(prog)
    return obs + nc, {"armed": len(armed), "matched": len(seen), "tested_but_not_armed": not_armed[:40], "null_count_pairs": nst["pairs"]}


if __name__ == "__main__":
    import sys
    import json
    prog = program("K0")
    sites = scan(prog)
    if len(sys.argv) > 1 and sys.argv[1] == "regen":
        arm = [{"function": s["fn"], "param": s["param"]} for s in sites if all(d[1] for d in s["derefs"])]
        json.dump({"_comment": "R-NULL: NULL-tested pointer parameters all of whose dereferences are dominated by the non-NULL outcome of a test on the "
                               "reviewed tree (python3 rules/r_null.py regen).", "armed": arm},
                  open(os.path.join(VERIF, "tables", "null_params.json"), "w"), indent=0)
        print("armed", len(arm), "of", len(sites), "NULL-tested pointer parameters with dereferences")
    for s in sites:
        bad = [d for d in s["derefs"] if not d[1]]
        if bad:
            print("UNGUARDED", s["fn"], s["param"], bad[:3])


# ------------------------------------------------------------------ optional array <-> its count

def nullcount_scan(prog):
    """{(function, pointer parameter): count variable} for argument checks of the form `p != NULL || count == 0`."""
    out = {}
    for f in prog.functions.values():
        if not f.blocks or not f.file.startswith("src/") or f.file.endswith("tests_impl.h") or \
                f.file.startswith(("src/bench", "src/tests", "src/testrand", "src/unit_test", "src/ctime", "src/precompute")):
            continue
        for b in f.blocks.values():
            if b.cond is None or not b.term or not any(m in ("ARG_CHECK", "ARG_CHECK_VOID") for m in b.term.get("macros", [])):
                continue
            for x in walk(b.cond):
                if kind(x) != "bin" or x[1] != "||":
                    continue
                for a, c in ((x[2], x[3]), (x[3], x[2])):
                    t = _null_test(a)
                    cs = strip(c)
                    if t and t[1] and t[0] in f.param_index and kind(cs) == "bin" and cs[1] == "==" and \
                            ((is_int(cs[3], 0) and kind(strip(cs[2])) == "var") or (is_int(cs[2], 0) and kind(strip(cs[3])) == "var")):
                        v = strip(cs[2])[1] if kind(strip(cs[2])) == "var" else strip(cs[3])[1]
                        out.setdefault((f.name, t[0]), set()).add(v)
    return out


def nullcount_obligations(prog):
    """An optional array may be NULL exactly when *its own* count is zero: the count variable paired with each pointer in
    `ARG_CHECK(p != NULL || count == 0)` on the reviewed tree (tables/null_count.json) is still the one in that check."""
    tab = load_table("null_count.json")["pairs"]
    cur = nullcount_scan(prog)
    obs = []
    for ent in tab:
        k = (ent["function"], ent["param"])
        f = prog.functions.get(k[0])
        if f is None or k not in cur:
            continue          # the check changed shape or moved: nothing to compare
        ok = cur[k] == {ent["count"]}
        obs.append(Obligation("R-NULL", "R-NULL:count:%s:%s" % k, f.loc, k[0],
                              "%s may be NULL exactly when %s is zero: the argument check of %s pairs the pointer with its own count" % (k[1], ent["count"], k[0]),
                              ok, "paired with %s" % ", ".join(sorted(cur[k])), props=props_of_function(f) | {"C07"}))
    fw = forward_obligations(prog, tab)
    return obs + fw, {"pairs": len(tab), "forwarding_callers": len(fw)}


def forward_obligations(prog, tab):
    """A function that only hands its own parameter q on as the optional array p of G (G accepts p == NULL when its count is
    zero) must not itself insist on q != NULL unconditionally: wrapper and callee then disagree on the empty list."""
    obs = []
    for ent in tab:
        G = prog.functions.get(ent["function"])
        if G is None or ent["param"] not in G.param_index:
            continue
        pi = G.param_index[ent["param"]]
        for f in prog.functions.values():
            if f is G or not f.blocks or not f.file.startswith("src/") or f.file.endswith("tests_impl.h"):
                continue
            for el, c in f.all_calls():
                if callee_name(c) != G.name or len(c[3]) <= pi:
                    continue
                a = strip(c[3][pi])
                if kind(a) != "var" or a[1] not in f.param_index:
                    continue
                # ... together with its own count parameter (a constant count is never zero: a strict check is fine then)
                ci = G.param_index.get(ent["count"])
                if ci is None or len(c[3]) <= ci or kind(strip(c[3][ci])) != "var" or strip(c[3][ci])[1] not in f.param_index:
                    continue
                q = a[1]
                strict = None
                for b in f.blocks.values():
                    if b.cond is None or not b.term or not any(m in ("ARG_CHECK", "ARG_CHECK_VOID") for m in b.term.get("macros", [])):
                        continue
                    t = _null_test(b.cond)
                    if t and t[0] == q:
                        strict = b.term["loc"]
                obs.append(Obligation("R-NULL", "R-NULL:forward:%s:%s->%s" % (f.name, q, G.name), strict or el.loc, f.name,
                                      "%s hands %s on as the optional array %s of %s (NULL allowed when %s is zero) and must not itself require it to be non-NULL unconditionally"
                                      % (f.name, q, ent["param"], G.name, ent["count"]), strict is None,
                                      "unconditional ARG_CHECK(%s != NULL) at %s" % (q, strict) if strict else "no unconditional NULL check of %s in %s" % (q, f.name),
                                      props=props_of_function(f) | {"C07"}))
    return obs
