"""R-CAP / R-RING / R-WRAP — capacity, ring-size and unsigned-wrap obligations (DESIGN §4), engine giv.

R-CAP   every memcpy/memset/memmove whose destination (or source) is rooted in an array of known
        capacity copies at most the remaining capacity; every variable index into an array of known
        size is within it; every variable shift amount is within the operand width.  Armed instances
        are those that interval analysis proves on the reviewed tree (tables/cap_sites.json); an armed
        instance that no longer proves is a violation.  Unprovable sites are reported in the evidence
        as not armed, never as violations.
R-RING  at every call of secp256k1_borromean_verify / _sign every ring size is >= 1.
R-WRAP  every += / *= / <<= on a header-derived 64-bit quantity in the listed parsers is protected by an
        overflow guard on its operands that leads to rejection.
"""
from sxlib import *
from giv import giv, fmt, INF, Giv
from core import Obligation, load_table

KERNEL_PREFIXES = ("src/field", "src/scalar", "src/group", "src/ecmult", "src/modinv", "src/int128",
                   "src/util.h", "src/precompute", "src/ecmult_gen", "src/selftest.h", "src/testrand", "src/hsort_impl.h")


NONZERO_ARG = ("secp256k1_clz64_var", "secp256k1_ctz32_var", "secp256k1_ctz64_var")


def _in_scope(f):
    return f.file.startswith("src/") and not f.file.startswith(KERNEL_PREFIXES) and f.blocks


def _array_cap(prog, g, e, env):
    """(capacity_in_bytes_remaining_lo, description) for pointer expression e when rooted in a sized array."""
    e = strip(e)
    k = kind(e)
    if k == "decay" and e[2]:
        return e[2], show(e[1])
    if k == "addr":
        x = strip(e[1])
        if kind(x) == "index":
            b = strip(x[1])
            if kind(b) == "decay" and b[2]:
                lo, hi = g.ev(x[2], env)
                if hi == INF or lo < 0:
                    return None, show(b[1])
                return b[2] - hi * b[3], show(b[1])
        if kind(x) == "var":
            v = g.fn.vars.get(x[1])
            if v and v.get("array_n") and v.get("bytes"):
                return v["bytes"], x[1]          # &arr: the whole array
        return None, None
    if k == "bin" and e[1] == "+":
        b = strip(e[2])
        if kind(b) == "decay" and b[2]:
            lo, hi = g.ev(e[3], env)
            if hi == INF or lo < 0:
                return None, show(b[1])
            return b[2] - hi * b[3], show(b[1])
    return None, None


def scan(prog):
    """All candidate sites with their current verdict: list of dicts {id, fn, loc, kind, text, proved, detail}."""
    out = []
    cover = {}
    mem_cover = {}       # block writes seen before the first indexed access of the same array
    for f in prog.functions.values():
        kernel = f.file.startswith("src/") and f.file.startswith(KERNEL_PREFIXES) and bool(f.blocks) and \
            not f.file.startswith(("src/bench", "src/tests", "src/testrand", "src/unit_test", "src/ctime", "src/precompute"))
        if not _in_scope(f) and not kernel:
            continue
        g = None
        seen_ids = {}
        def add(idbase, loc, kindname, text, proved, detail):
            out.append({"idbase": idbase, "fn": f.name, "loc": loc, "kind": kindname, "text": text,
                        "proved": proved, "detail": detail})
        for el in f.elems():
            cands = []
            for x in walk(el.e):
                k = kind(x)
                if kernel:
                    # arithmetic kernels: only the coverage of limb / word loops is looked at
                    if k == "index":
                        b = strip(x[1])
                        if kind(b) == "decay" and b[4] and int_val(x[2]) is None:
                            cands.append(("idx", x))
                    continue
                if k == "call" and callee_name(x) in ("memcpy", "memset", "memmove") and len(x[3]) == 3:
                    cands.append(("mem", x))
                elif k == "call" and callee_name(x) in ("memcmp", "secp256k1_memcmp_var") and len(x[3]) == 3:
                    cands.append(("cmp", x))
                elif k == "index":
                    b = strip(x[1])
                    if kind(b) == "decay" and b[4] and int_val(x[2]) is None:
                        cands.append(("idx", x))
                elif k in ("bin", "assign") and x[1] in ("<<", ">>", "<<=", ">>=") and int_val(x[3]) is None:
                    cands.append(("shift", x))
                elif k == "call" and callee_name(x) in NONZERO_ARG and x[3]:
                    cands.append(("pre", x))
                elif k == "call" and callee_name(x) is None and show(x[1]).endswith("fn_sha256_compression") and len(x[3]) == 3:
                    cands.append(("blocks", x))
            if not cands:
                continue
            if g is None:
                g = giv(prog, f.name)
            env = g.env_at(el)
            if env is None:
                continue
            for kd, x in cands:
                if kd == "pre":
                    # evaluate at the call's own CFG element (it may sit in one arm of a ?: or && whose guard refines the argument)
                    env2 = env
                    for b2 in f.blocks.values():
                        for el2 in b2.elems:
                            if el2.e == x:
                                e2 = g.env_at(el2)
                                if e2 is not None:
                                    env2 = e2
                    iv = g.ev(x[3][0], env2)
                    idb = "R-CAP:%s:nonzero:%s" % (f.name, callee_name(x))
                    text = "%s is undefined for 0: its argument %s must be >= 1" % (callee_name(x), show(x[3][0]))
                    if iv[0] == -INF:
                        add(idb, x[2], "pre", text, None, "argument %s not bounded by intervals" % fmt(iv))
                    else:
                        add(idb, x[2], "pre", text, iv[0] >= 1, "argument in %s" % fmt(iv))
                    continue
                if kd == "blocks":
                    # the replaceable compression callback is documented to process one or more blocks
                    env2 = env
                    for b2 in f.blocks.values():
                        for el2 in b2.elems:
                            if el2.e == x:
                                e2 = g.env_at(el2)
                                if e2 is not None:
                                    env2 = e2
                    iv = g.ev(x[3][2], env2)
                    add("R-CAP:%s:blocks:fn_sha256_compression" % f.name, x[2], "pre",
                        "the SHA-256 compression callback is invoked with n_blocks = %s >= 1 (its contract: one or more contiguous blocks)" % show(x[3][2]),
                        (iv[0] >= 1) if iv[0] != -INF else None, "n_blocks in %s" % fmt(iv))
                    continue
                if kd == "cmp":
                    # a comparison against a whole array compares all of it (a length of sizeof(pointer) compares a prefix)
                    ln = g.ev(x[3][2], env)
                    for which, arg in (("a", x[3][0]), ("b", x[3][1])):
                        cap, desc = _array_cap(prog, g, arg, env)
                        if desc is None or cap is None:
                            continue
                        idb = "R-CAP:%s:%s:whole(%s)" % (f.name, callee_name(x), desc)
                        text = "%s against %s must compare all %d bytes of it (length %s)" % (callee_name(x), desc, cap, show(x[3][2]))
                        add(idb, x[2], "cmp", text, ln[0] == cap and ln[1] == cap, "length in %s, %s has %d bytes from the compared offset" % (fmt(ln), desc, cap))
                    continue
                if kd == "mem":
                    ln = g.ev(x[3][2], env)
                    for which, arg in (("dst", x[3][0]), ("src", x[3][1])):
                        if which == "src" and callee_name(x) == "memset":
                            continue
                        cap, desc = _array_cap(prog, g, arg, env)
                        if desc is None:
                            continue
                        if which == "dst" and cap is not None and ln[1] != INF and ln[0] == ln[1] and ln[1] > 0:
                            # a block write covers the elements it spans (a zeroing loop replaced by memset keeps the coverage)
                            dn = [y for y in walk(arg) if kind(y) == "decay" and y[2]]
                            if dn and dn[0][3]:
                                es, total = dn[0][3], dn[0][2]
                                o0 = (total - cap) // es
                                o1 = (total - cap + ln[1] - 1) // es
                                cv = cover.get((f.name, desc))
                                if cv is None:
                                    mem_cover.setdefault((f.name, desc), []).append((o0, o1))
                                elif cv[1] is not None:
                                    cv[1], cv[2] = min(cv[1], o0), max(cv[2], o1)
                        idb = "R-CAP:%s:%s:%s(%s)" % (f.name, callee_name(x), which, desc)
                        text = "%s: length %s must not exceed the remaining capacity of %s" % (callee_name(x), show(x[3][2]), desc)
                        if cap is None:
                            add(idb, x[2], "mem", text, None, "offset into %s not bounded by intervals" % desc)
                        elif ln[1] == INF:
                            add(idb, x[2], "mem", text, None, "length %s not bounded by intervals" % fmt(ln))
                        else:
                            add(idb, x[2], "mem", text, ln[1] <= cap and ln[0] >= 0,
                                "length in %s, remaining capacity %d bytes" % (fmt(ln), cap))
                elif kd == "idx":
                    b = strip(x[1])
                    iv = g.ev(x[2], env)
                    idb = "R-CAP:%s:index:%s" % (f.name, show(b[1]))
                    text = "index %s into %s[%d] must be within bounds" % (show(x[2]), show(b[1]), b[4])
                    inb = not (iv[1] == INF or iv[0] == -INF) and iv[0] >= 0 and iv[1] <= b[4] - 1
                    if inb:
                        cv = cover.setdefault((f.name, show(b[1])), [b[4], iv[0], iv[1], el.loc])
                        if cv[1] is not None:
                            cv[1], cv[2] = min(cv[1], iv[0]), max(cv[2], iv[1])
                    else:
                        cover[(f.name, show(b[1]))] = [b[4], None, None, el.loc]      # an access the intervals cannot place: no coverage claim
                    if kernel:
                        continue
                    if iv[1] == INF or iv[0] == -INF:
                        add(idb, el.loc, "idx", text, None, "index %s not bounded by intervals" % fmt(iv))
                    else:
                        add(idb, el.loc, "idx", text, iv[0] >= 0 and iv[1] <= b[4] - 1, "index in %s, array has %d elements" % (fmt(iv), b[4]))
                else:
                    iv = g.ev(x[3], env)
                    width = None
                    ky = Giv.key(x[2])
                    if ky is not None:
                        tr = g.type_range_key(ky)
                        if tr[1] != INF:
                            width = int(tr[1]).bit_length() + (1 if tr[0] < 0 else 0)
                    elif kind(strip(x[2])) == "int":
                        width = strip(x[2])[2]
                    if width is None or width < 32:
                        width = 32 if width is None or width < 32 else width
                    idb = "R-CAP:%s:shift:%s" % (f.name, x[1])
                    text = "shift amount %s must be in [0, %d]" % (show(x[3]), width - 1)
                    if iv[1] == INF or iv[0] == -INF:
                        add(idb, el.loc, "shift", text, None, "amount %s not bounded by intervals" % fmt(iv))
                    else:
                        add(idb, el.loc, "shift", text, iv[0] >= 0 and iv[1] <= width - 1, "amount in %s" % fmt(iv))
    # coverage: a loop that walks a fixed-size array (limbs of a field element, words of a scalar, bytes of a buffer) and
    # covers all of it on the reviewed tree must keep covering all of it (hull of the index intervals of all accesses,
    # constant-index accesses included): `while (i-- > 0)` started one short compares 4 of 5 limbs
    for (fname, arr), (n, lo, hi, loc) in sorted(cover.items()):
        if lo is None:
            continue
        for (o0, o1) in mem_cover.get((fname, arr), ()):
            lo, hi = min(lo, o0), max(hi, o1)
        f = prog.functions[fname]
        for el in f.elems():
            for x in walk(el.e):
                if kind(x) == "index" and int_val(x[2]) is not None:
                    b = strip(x[1])
                    if kind(b) == "decay" and b[4] and show(b[1]) == arr:
                        lo, hi = min(lo, int_val(x[2])), max(hi, int_val(x[2]))
        out.append({"idbase": "R-CAP:%s:cover:%s" % (fname, arr), "fn": fname, "loc": loc, "kind": "cover",
                    "text": "the accesses to %s[%d] in %s together cover every element" % (arr, n, fname),
                    "proved": lo <= 0 and hi >= n - 1, "detail": "indexes used span %s of [0, %d]" % (fmt((lo, hi)), n - 1)})
    # number the sites of one (function, kind, base object) in source order
    def line_of(s):
        try:
            return int(s["loc"].rsplit(":", 1)[1])
        except (ValueError, IndexError):
            return 0
    out.sort(key=lambda s: (s["idbase"], line_of(s)))
    cnt = {}
    for s in out:
        cnt[s["idbase"]] = cnt.get(s["idbase"], 0) + 1
        s["id"] = "%s#%d" % (s["idbase"], cnt[s["idbase"]])
    return out


def obligations(prog):
    from core import armed_group_obligations
    tab = load_table("cap_sites.json")
    groups = tab["groups"]
    sites = scan(prog)
    obs = armed_group_obligations("R-CAP", sites, groups, unproved=tab.get("unproved"))
    unproved = [s for s in sites if s["proved"] is not True]
    st = {"sites_scanned": len(sites), "armed_groups": len(groups), "armed_sites": sum(groups.values()),
          "sites_proved_now": len(sites) - len(unproved),
          "not_provable_sites": [s["id"] + " @" + s["loc"] + ": " + s["detail"] for s in unproved][:40]}
    co = contract_obligations(prog)
    st["contract_sites"] = len(co)
    return obs + co, st


def contract_obligations(prog):
    """A copy whose length is a parameter fits its local array for every length the function's own contract admits: the
    bound is the function's `VERIFY_CHECK(len <= C)` (read from the VERIFY variant of the same unit), the capacity is what
    is left of the array behind the constant destination offset.  `rngseed[32 + 33 + 33 + 9]` for a header of up to 10
    bytes is reported although no caller is examined."""
    from core import props_of_function
    try:
        pv = program(getattr(prog, "config", "K0") or "K0", verify=True)
    except AnalysisBroken:
        raise
    obs = []
    for f in sorted(prog.functions.values(), key=lambda x: x.name):
        if not f.blocks or not f.file.startswith("src/") or f.file.endswith("tests_impl.h"):
            continue
        fv = pv.functions.get(f.name)
        if fv is None:
            continue
        bd = {}
        for b in fv.blocks.values():
            if b.cond is None or not b.term or not any("VERIFY_CHECK" in m for m in b.term.get("macros", [])):
                continue
            c, neg = strip(b.cond), False
            while kind(c) == "un" and c[1] == "!":
                c, neg = strip(c[2]), not neg
            if neg and kind(c) == "bin" and c[1] in ("<=", "<") and kind(strip(c[2])) == "var" and strip(c[2])[1] in fv.param_index and int_val(c[3]) is not None:
                bd[strip(c[2])[1]] = int_val(c[3]) - (1 if c[1] == "<" else 0)
        if not bd:
            continue
        for el, c in f.all_calls():
            if callee_name(c) not in ("memcpy", "memset", "memmove") or len(c[3]) != 3:
                continue
            ln = strip(c[3][2])
            if kind(ln) != "var" or ln[1] not in bd or ln[1] not in f.param_index:
                continue
            for which, a in (("destination", c[3][0]),) + ((("source", c[3][1]),) if callee_name(c) != "memset" else ()):
                root = lvalue_root(a)
                cap = (f.vars.get(root[1]) or {}).get("array_n") if root is not None else None
                ebytes = (f.vars.get(root[1]) or {}).get("bytes") if root is not None else None
                if not cap:
                    continue
                # constant offset: sum of the integer addends of the pointer expression
                off, ok_shape = 0, True
                x = strip(a)
                while kind(x) == "bin" and x[1] == "+":
                    if int_val(x[3]) is not None:
                        off += int_val(x[3])
                        x = strip(x[2])
                    elif int_val(x[2]) is not None:
                        off += int_val(x[2])
                        x = strip(x[3])
                    else:
                        ok_shape = False
                        break
                if not ok_shape or kind(x) not in ("decay", "var"):
                    continue
                esz = (ebytes // cap) if ebytes and cap else 1
                room = (cap * esz) - off * esz
                ok = bd[ln[1]] <= room
                obs.append(Obligation("R-CAP", "R-CAP:contract:%s:%s:%s" % (f.name, root[1], which), el.loc, f.name,
                                      "%s of `%s`: up to %d bytes (VERIFY_CHECK(%s <= %d)) must fit the %d bytes of %s behind offset %d"
                                      % (which, show(c)[:60], bd[ln[1]], ln[1], bd[ln[1]], room, root[1], off), ok,
                                      "%d <= %d" % (bd[ln[1]], room) if ok else "%d bytes admitted, %d available" % (bd[ln[1]], room),
                                      props=props_of_function(f) | {"C07"}))
    return obs


# ------------------------------------------------------------------ R-RING

# the verifier is the soundness-relevant primitive; the prover's call sites are not obligations
RING_CALLEES = {"secp256k1_borromean_verify": ("rsizes", "nrings")}


def ring_obligations(prog):
    obs = []
    n = {}
    for callee, (pname, nname) in RING_CALLEES.items():
        cf = prog.fn(callee)
        if pname not in cf.param_index:
            raise AnalysisBroken("R-RING: %s has no parameter %s any more" % (callee, pname))
        pi = cf.param_index[pname]
        for (f, el, c) in prog.callers().get(callee, []):
            if f.file.endswith("tests_impl.h"):
                continue
            g = giv(prog, f.name)
            env = g.env_at(el)
            a = strip(c[3][pi])
            idb = "R-RING:%s:%s" % (f.name, callee)
            n[idb] = n.get(idb, 0) + 1
            oid = "%s#%d" % (idb, n[idb])
            text = "every ring size handed to %s must be >= 1 (an empty ring makes the ring equation vacuous)" % callee
            if env is None:
                continue
            if kind(a) == "addr":
                iv = g.ev(a[1], env)
                ok = iv[0] >= 1
                obs.append(Obligation("R-RING", oid, c[2], f.name, text, ok,
                                      "ring size %s in %s at the call%s" % (show(a[1]), fmt(iv), "" if ok else ": lower bound 0, no dominating guard excludes the empty ring")))
            elif kind(a) == "decay" and kind(strip(a[1])) == "var":
                arr = strip(a[1])[1]
                worst = None
                stores = 0
                for el2 in f.elems():
                    for x in walk(el2.e):
                        if x[0] == "assign" and kind(strip(x[2])) == "index":
                            b = strip(strip(x[2])[1])
                            if kind(b) == "decay" and kind(strip(b[1])) == "var" and strip(b[1])[1] == arr:
                                env2 = g.env_at(el2)
                                if env2 is None:
                                    continue
                                if x[1] == "=":
                                    iv = g.ev(x[3], env2)
                                else:
                                    iv = (-INF, INF)
                                stores += 1
                                worst = iv if worst is None else (min(worst[0], iv[0]), max(worst[1], iv[1]))
                ok = worst is not None and worst[0] >= 1
                obs.append(Obligation("R-RING", oid, c[2], f.name, text, ok,
                                      "%d stores into %s[], values in %s" % (stores, arr, fmt(worst) if worst else "no store found")))
            else:
                obs.append(Obligation("R-RING", oid, c[2], f.name, text, False, "ring-size argument %s has an unrecognised shape" % show(a)))
    if len(obs) < 3:
        raise AnalysisBroken("R-RING: only %d call sites of secp256k1_borromean_verify found (expected 3: range proof, surjection, whitelist)" % len(obs))
    return obs, {"call_sites": len(obs)}


# ------------------------------------------------------------------ R-WRAP

WRAP_FUNCS = {
    "secp256k1_rangeproof_getheader_impl": {"C10", "C09", "C07"},
    "secp256k1_schnorrsig_inc_aggregate": {"C17", "C07"},
    "secp256k1_range_proveparams": {"C09"},
}


def _mentions(e, key):
    return any(Giv.key(x) == key for x in walk(e))


def wrap_obligations(prog):
    """Armed instances (tables/wrap_sites.json = the candidates that hold on the reviewed tree) of _wrap_scan."""
    from core import armed_group_obligations
    tab = load_table("wrap_sites.json")
    groups = tab["groups"]
    allobs = _wrap_scan(prog)
    def _grp(oid):
        # armed per (function, kind of operation): the variable that receives the result may be renamed or introduced
        base = oid.rsplit("#", 1)[0]
        fn_ = base.split(":")[1]
        return "R-WRAP:%s:%s" % (fn_, "mul" if "*" in base.split(":", 2)[2][-2:] else "add")
    sites = [{"idbase": _grp(o.oid), "fn": o.fn, "loc": o.loc, "text": o.text, "proved": bool(o.ok), "detail": o.detail, "props": o.props}
             for o in allobs]
    obs = armed_group_obligations("R-WRAP", sites, groups, unproved=tab.get("unproved"))
    # second level, per receiving object: inside one (function, kind) group a guard may move from one quantity to another
    # (`*scale > MAX / 10` for `*max_value > MAX / 10`) with both counts unchanged.  A renamed object makes its group
    # vanish (not decided here, the coarse group above still counts it); it never fires.
    fine = tab.get("fine", {})
    fsites = [{"idbase": o.oid.rsplit("#", 1)[0] + ":obj", "fn": o.fn, "loc": o.loc, "text": o.text, "proved": bool(o.ok), "detail": o.detail,
               "props": o.props} for o in allobs]
    obs += armed_group_obligations("R-WRAP", fsites, fine, unproved=tab.get("fine_unproved"))
    return obs, {"candidates": len(allobs), "armed_groups": len(groups), "armed_objects": len(fine),
                 "not_provable": [o.oid + ": " + o.detail for o in allobs if not o.ok]}


def _wrap_scan(prog):
    """Each `X += Y` / `X *= k` / `X = A op B` on a 64-bit unsigned lvalue X in the listed functions must be
    provably in range, or dominated by a relational guard on its operands one of whose edges rejects, or be
    followed at once by the post-check idiom comparing the result with an operand."""
    obs = []
    for fname, props in WRAP_FUNCS.items():
        f = prog.fn(fname)
        g = giv(prog, fname)
        dom = f.dominators()
        cnt = 0
        dup = {}
        for el in f.elems():
            cands = list(walk(el.e))
            if kind(el.e) == "decls":
                # `const uint64_t scaled = a * 10;` is an assignment like any other
                cands += [["assign", "=", ["var", d[1]], d[2]] for d in el.e[1:] if d[2] is not None and kind(d[2]) != "init"]
            for x in cands:
                if x[0] != "assign":
                    continue
                op = x[1]
                key = Giv.key(x[2])
                if key is None:
                    continue
                tr = g.type_range_key(key)
                if tr != (0, 2 ** 64 - 1):
                    continue
                if op in ("+=", "*="):
                    operands = [x[3]]
                    opn = op[0]
                elif op == "=" and kind(strip(x[3])) == "bin" and strip(x[3])[1] in ("+", "*") and \
                        (Giv.key(strip(x[3])[2]) or Giv.key(strip(x[3])[3])):
                    operands = [strip(x[3])[2], strip(x[3])[3]]
                    opn = strip(x[3])[1]
                else:
                    continue
                env = g.env_at(el)
                if env is None:
                    continue
                # provable by intervals alone?
                res = Giv.binop(opn, g.ev(x[2], env), g.ev(x[3], env)) if op != "=" else g.ev(x[3], env)
                cnt += 1
                oid = "R-WRAP:%s:%s%s" % (fname, key, op if op != "=" else "=" + opn)
                dup[oid] = dup.get(oid, 0) + 1
                oid = "%s#%d" % (oid, dup[oid])
                text = "`%s` must not wrap around 2^64: an overflow guard on its operands must dominate it and reject" % show(x)
                if res[1] <= 2 ** 64 - 1:
                    obs.append(Obligation("R-WRAP", oid, el.loc, fname, text, True, "cannot wrap: result in %s" % fmt(res), props=props))
                    continue
                # look for a dominating guard block: relational condition mentioning the key or an operand key, with an edge that returns 0
                okeys = {key} | {Giv.key(o) for o in operands if Giv.key(o)}
                guard = None
                for d in dom.get(el.blk, ()):
                    b = f.blocks[d]
                    if d == el.blk or b.cond is None:
                        continue
                    c = strip(b.cond)
                    if kind(c) == "un" and c[1] == "!":
                        c = strip(c[2])
                    if kind(c) != "bin" or c[1] not in ("<", ">", "<=", ">="):
                        continue
                    if not any(_mentions(c, k2) for k2 in okeys):
                        continue
                    # one successor must be a rejecting block (returns literal 0) not dominating the assignment
                    rej = False
                    for s in b.succs:
                        if s is None or s in dom.get(el.blk, ()):
                            continue
                        sb = f.blocks[s]
                        for e2 in sb.elems:
                            if e2.top and kind(e2.e) == "return" and is_int(e2.e[1], 0):
                                rej = True
                    # the guard must not be separated from the assignment by a redefinition of the guarded operands
                    if rej:
                        guard = b
                post = None
                if guard is None and op == "=" and opn == "+":      # r = a + b wrapped iff r < a; no such test exists for a product
                    # post-check idiom: the very next branch compares the result with one of the operands
                    bids = [el.blk] + [s2 for s2 in f.blocks[el.blk].succs if s2 is not None]
                    for bid in bids:
                        b2 = f.blocks[bid]
                        if b2.cond is None:
                            continue
                        c = strip(b2.cond)
                        if kind(c) == "un" and c[1] == "!":
                            c = strip(c[2])
                        if kind(c) == "bin" and c[1] in ("<", ">", "<=", ">=") and _mentions(c, key) and \
                                any(_mentions(c, k2) for k2 in okeys - {key}):
                            post = b2
                            break
                if guard is not None:
                    obs.append(Obligation("R-WRAP", oid, el.loc, fname, text, True,
                                          "guarded by `%s` at %s" % (show(guard.cond), guard.term["loc"]), props=props))
                elif post is not None:
                    obs.append(Obligation("R-WRAP", oid, el.loc, fname, text, True,
                                          "post-checked by `%s` at %s" % (show(post.cond), post.term["loc"]), props=props))
                else:
                    obs.append(Obligation("R-WRAP", oid, el.loc, fname, text, False,
                                          "result may reach %s and no dominating relational guard on %s rejects" % (fmt(res), ", ".join(sorted(okeys))), props=props))
    return obs


if __name__ == "__main__":
    import sys, json
    prog = program("K0")
    if len(sys.argv) > 1 and sys.argv[1] == "regen":
        sites = scan(prog)
        groups, unp = {}, {}
        for s in sites:
            if s["proved"] is True:
                groups[s["idbase"]] = groups.get(s["idbase"], 0) + 1
            else:
                unp[s["idbase"]] = unp.get(s["idbase"], 0) + 1
        json.dump({"_comment": "R-CAP: per (function, kind, object) the number of sites proved / not proved by interval analysis on the reviewed tree "
                               "(python3 rules/r_cap.py regen). A group with fewer proved and more unproved sites is a violation.",
                   "groups": dict(sorted(groups.items())), "unproved": {k: v for k, v in sorted(unp.items()) if k in groups}}, open(os.path.join(VERIF, "tables", "cap_sites.json"), "w"), indent=0)
        print("armed", sum(groups.values()), "sites in", len(groups), "groups, of", len(sites), "sites")
        w = _wrap_scan(prog)
        wg, wu = {}, {}
        for o in w:
            b0 = o.oid.rsplit("#", 1)[0]
            b = "R-WRAP:%s:%s" % (b0.split(":")[1], "mul" if "*" in b0.split(":", 2)[2][-2:] else "add")
            if o.ok:
                wg[b] = wg.get(b, 0) + 1
            else:
                wu[b] = wu.get(b, 0) + 1
        fg, fu = {}, {}
        for o in w:
            b = o.oid.rsplit("#", 1)[0] + ":obj"
            if o.ok:
                fg[b] = fg.get(b, 0) + 1
            else:
                fu[b] = fu.get(b, 0) + 1
        json.dump({"_comment": "R-WRAP: per (function, kind of operation) and per (function, receiving object, operation) the number of instances that hold / do not hold on the reviewed tree (python3 rules/r_cap.py regen).",
                   "groups": dict(sorted(wg.items())), "unproved": {k: v for k, v in sorted(wu.items()) if k in wg},
                   "fine": dict(sorted(fg.items())), "fine_unproved": {k: v for k, v in sorted(fu.items()) if k in fg}}, open(os.path.join(VERIF, "tables", "wrap_sites.json"), "w"), indent=0)
        for o in w:
            print("WRAP", "armed" if o.ok else "not-armed", o.oid, o.detail)
        return_ = None
        import collections
        print(collections.Counter((s["kind"], s["proved"]) for s in sites))
    else:
        for fn_ in (obligations, ring_obligations, wrap_obligations):
            obs, st = fn_(prog)
            print(fn_.__name__, st if fn_ is not obligations else {k: v for k, v in st.items()})
            for o in obs:
                if not o.ok:
                    print("  VIOL", o.oid, o.loc, o.detail)
            if fn_ is not obligations:
                for o in obs:
                    if o.ok:
                        print("  ok  ", o.oid, o.loc, o.detail)
