"""core — obligation records, scoping of rule instances to properties, reporting.

A rule produces Obligation records.  An obligation is one instance of a rule
template at one construct of /repo's current source.  Its id is stable under
edits that do not touch the construct (no line numbers).
"""
import json
import os
import re
import time

from sxlib import VERIF, AnalysisBroken


class Obligation:
    __slots__ = ("rule", "oid", "loc", "fn", "text", "ok", "detail", "exception", "props")

    def __init__(self, rule, oid, loc, fn, text, ok, detail="", exception=None, props=None):
        self.rule = rule          # 'R-CHK'
        self.oid = oid            # stable id, e.g. R-CHK:secp256k1_pedersen_commit:secp256k1_scalar_set_b32#1
        self.loc = loc            # file:line on today's tree (for the reader only)
        self.fn = fn
        self.text = text          # what must hold
        self.ok = ok
        self.detail = detail      # how it is discharged / why it fails
        self.exception = exception
        self.props = props        # optional explicit property set; else derived from fn

    def as_dict(self):
        d = {"rule": self.rule, "id": self.oid, "loc": self.loc, "function": self.fn,
             "obligation": self.text, "holds": bool(self.ok), "detail": self.detail}
        if self.exception:
            d["exception"] = self.exception
        return d


def number_ids(items):
    """items: list of (base_id, payload) in source order; returns list of (base_id#k, payload)."""
    cnt = {}
    out = []
    for base, p in items:
        cnt[base] = cnt.get(base, 0) + 1
        out.append(("%s#%d" % (base, cnt[base]), p))
    return out


# ------------------------------------------------------------------ scoping
# Which properties a library function's obligations belong to (by where the
# function lives, refined by name inside the two shared files).

_FILE_PROPS = [
    ("src/modules/recovery/", {"C01", "C03"}),
    ("src/modules/schnorrsig_halfagg/", {"C17"}),
    ("src/modules/schnorrsig/", {"C02"}),
    ("src/modules/extrakeys/", {"C04"}),
    ("src/modules/generator/", {"C08"}),
    ("src/modules/rangeproof/borromean", {"C10", "C11", "C16"}),
    ("src/modules/rangeproof/", {"C09", "C10"}),
    ("src/modules/surjection/", {"C11"}),
    ("src/modules/musig/", {"C12"}),
    ("src/modules/ecdsa_adaptor/", {"C14"}),
    ("src/modules/ecdsa_s2c/", {"C15"}),
    ("src/eccommit_impl.h", {"C15", "C04"}),
    ("src/modules/whitelist/", {"C16"}),
    ("src/modules/ecdh/", {"C18"}),
    ("src/modules/ellswift/", {"C18"}),
    ("src/modules/bppp/", {"C19"}),
    ("src/ecdsa_impl.h", {"C01", "C03"}),
    ("src/eckey_impl.h", {"C03", "C04"}),
    ("src/hash_impl.h", {"C05"}),
    ("src/hsort_impl.h", {"C04"}),
    ("src/scratch_impl.h", {"C07", "C19"}),
    # arithmetic kernels: only structural obligations land here (coverage of limb loops, constants)
    ("src/field_", {"C05"}), ("src/scalar_", {"C05"}), ("src/group_", {"C05"}), ("src/ecmult", {"C05"}), ("src/modinv", {"C05"}),
]

_NAME_PROPS = [  # functions of src/secp256k1.c
    (r"secp256k1_ecdsa_sig(nature)?_(parse|serialize|load|save|normalize)", {"C03", "C01"}),
    (r"secp256k1_ecdsa_(sign|verify|sign_inner)|nonce_function_rfc6979", {"C01"}),
    (r"secp256k1_ec_pubkey_(parse|serialize)|secp256k1_pubkey_(load|save)", {"C03", "C04"}),
    (r"secp256k1_ec_(pubkey|seckey)_|secp256k1_ec_privkey_", {"C04"}),
    (r"secp256k1_tagged_sha256", {"C05", "C02"}),
    (r"secp256k1_context_|secp256k1_selftest|secp256k1_scratch_space", {"C20"}),
]

_NAME_EXTRA = [  # refinements that add properties regardless of file
    (r"secp256k1_xonly_pubkey_(parse|serialize)", {"C03"}),
    (r"secp256k1_musig_(nonce_gen|partial_sign$|secnonce)", {"C13"}),
    (r"secp256k1_ecdsa_s2c_sign|secp256k1_anti_exfil", {"C15", "C01"}),
    (r"secp256k1_ecdsa_sign_inner", {"C15"}),
    (r"secp256k1_ecdsa_sign_recoverable|secp256k1_ecdsa_recover", {"C01"}),
    (r"secp256k1_sha256_write$", {"C20"}),     # where the replaceable compression callback of the context is invoked
    (r"secp256k1_fe_cmp_var$", {"C01"}),      # its only library caller is the r + n < p decision of ECDSA verification
]


def props_of_function(fn):
    ps = set()
    for pre, s in _FILE_PROPS:
        if fn.file.startswith(pre):
            ps |= s
            break
    if fn.file == "src/secp256k1.c":
        for rx, s in _NAME_PROPS:
            if re.search(rx, fn.name):
                ps |= s
    for rx, s in _NAME_EXTRA:
        if re.search(rx, fn.name):
            ps |= s
    return ps


def load_table(name):
    p = os.path.join(VERIF, "tables", name)
    with open(p) as f:
        return json.load(f)


# -------------------------------------------------------------- known findings

def load_known_findings():
    """known_findings.txt lines:
         finding: property=<id> id=<obligation id> <what fails>
         fixed: property=<id> <commit> <what failed>
    Only 'finding:' lines suppress (and only the exact obligation id)."""
    p = os.path.join(VERIF, "known_findings.txt")
    out = {}
    if not os.path.exists(p):
        return out
    for line in open(p):
        line = line.strip()
        m = re.match(r"finding:\s+property=(\S+)\s+id=(\S+)\s+(.*)", line)
        if m:
            out[(m.group(1), m.group(2))] = m.group(3)
    return out


def armed_group_obligations(rule, sites, groups, props_of=None, unproved=None):
    """Armed-rule semantics that is insensitive to statement order, to expression text and to merging / splitting of
    sites: sites are grouped by (function, kind, object) = `idbase`; the table freezes how many sites of each group the
    engine proved (`groups`) and could not prove (`unproved`) on the reviewed tree.  A group is violated when a site
    went from proved to unproved: fewer proved sites AND more unproved sites than on the reviewed tree (reported at its
    first unproved site).  Sites that merely vanished (two loops merged into one, all remaining sites proved) and new
    sites next to intact armed ones do not fire."""
    by = {}
    for s in sites:
        by.setdefault(s["idbase"], []).append(s)
    unproved = unproved or {}
    obs = []
    for g, need in sorted(groups.items()):
        ss = by.get(g)
        if not ss:
            continue        # the construct changed shape; the instance floor decides whether too many vanished
        good = [s for s in ss if s["proved"] is True]
        bad = [s for s in ss if s["proved"] is not True]
        ok = len(good) >= need or len(bad) <= unproved.get(g, 0)
        rep = (bad[0] if (bad and not ok) else ss[0])
        detail = ("%d of %d site(s) proved (armed: %d)" % (len(good), len(ss), need)) + \
                 ("; " + good[0]["detail"] if ok and good else "") + \
                 ("".join("; NOT proved at %s: %s" % (s["loc"], s["detail"]) for s in bad[:3]) if not ok else "")
        obs.append(Obligation(rule, g, rep["loc"], rep["fn"], rep["text"], ok, detail, props=(props_of(rep) if props_of else rep.get("props"))))
    return obs
