#!/usr/bin/env python3
"""seedmeta — complete seeded/<id>/meta.json from the confirmation log and seeded/needs.json.

`confirmed` is taken from the RESULT line that the confirmation script wrote into confirm.log after building the
unchanged tree and the changed tree in an independent scratch worktree (cmake + ninja, all 317 ctest entries, then the
demonstration against each build).  Nothing here runs a check; rules/scan.py fills in which check reports the change.
"""
import json
import os
import re
import sys

VERIF = os.path.dirname(os.path.dirname(os.path.abspath(__file__)))
SD = os.path.join(VERIF, "seeded")


def main():
    needs = json.load(open(os.path.join(SD, "needs.json")))
    bad = 0
    for d in sorted(os.listdir(SD)):
        p = os.path.join(SD, d)
        if not os.path.exists(os.path.join(p, "patch.diff")):
            continue
        mp = os.path.join(p, "meta.json")
        m = json.load(open(mp)) if os.path.exists(mp) else {}
        m.setdefault("property", d.split("-")[0])
        m.setdefault("origin", "fresh sub-agent given only the property text and its own scratch worktree"
                     + (" (round 2: asked for two changes of different kinds)" if not d.endswith("-a") else ""))
        if not m.get("needs_to_manifest") and d in needs:
            m["needs_to_manifest"] = needs[d]
        if d in needs.get("_miss", {}):
            m["miss_reason"] = needs["_miss"][d]
        log = os.path.join(p, "confirm.log")
        if os.path.exists(log):
            r = re.findall(r"RESULT id=\S+ apply=(\d+) base_tests='([^']*)' mut_tests='([^']*)' demo_unchanged=(\d+) demo_changed=(\d+)", open(log).read())
            if r:
                a, bt, mt, d0, d1 = r[-1]
                m["confirmed"] = {"how": "independent scratch worktree of /repo HEAD under /tmp: cmake+ninja build, ctest -j12 (all 317 entries) and run_demo.sh, "
                                         "on the unchanged tree and again with patch.diff applied; the worktree was removed afterwards",
                                  "patch_applies": a == "0", "tests_unchanged": bt, "tests_with_change": mt,
                                  "demo_exit_unchanged": int(d0), "demo_exit_with_change": int(d1)}
        c = m.get("confirmed") or {}
        ok = c.get("patch_applies") and "0 tests failed out of 317" in c.get("tests_with_change", "") and c.get("demo_exit_unchanged") == 0 and c.get("demo_exit_with_change", 0) != 0
        if not ok or not m.get("needs_to_manifest"):
            bad += 1
            print("INCOMPLETE", d, "confirmed" if ok else "NOT-CONFIRMED", "needs" if m.get("needs_to_manifest") else "NO-NEEDS")
        json.dump(m, open(mp, "w"), indent=1)
    print("seed metadata complete" if not bad else "%d incomplete" % bad)
    return 1 if bad else 0


if __name__ == "__main__":
    sys.exit(main())
