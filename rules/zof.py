"""zof — zero-on-failure analysis (DESIGN §3.3) and rule R-ZOF.

Forward dataflow per function over the lattice (per tracked object O, named by its root variable)

    Z          O is all-zero
    C(v, pol)  O is all-zero whenever int variable v == 0 (pol 0) / v != 0 (pol 1)
    E          O still has its entry contents (untouched)
    D          unknown

plus a must-set of facts (v == 0 / v != 0) established by dominating branch edges and killed when v
is assigned.  Transfer functions are a table of the repository's own primitives; static helpers get
summaries computed bottom-up by the same analysis (what state is parameter k in, relative to the
return value or to a flag parameter, at each exit).
"""
from sxlib import *
from core import Obligation

Z = ("Z",)
E = ("E",)
D = ("D",)


def C(v, pol):
    return ("C", v, pol)


# primitives --------------------------------------------------------------
ZERO_ALL = {"secp256k1_memzero_explicit": (0, 1), "secp256k1_memclear_explicit": (0, 1)}   # (ptr arg, len arg)
ZERO_TYPED = {"secp256k1_scalar_clear": 0, "secp256k1_fe_clear": 0, "secp256k1_ge_clear": 0, "secp256k1_gej_clear": 0}
# zero-preserving copies: callee -> (dst arg, [src args])
COPY = {
    "secp256k1_scalar_get_b32": (0, [1]),
    "secp256k1_scalar_negate": (0, [1]),
    "secp256k1_ecdsa_signature_save": (0, [1, 2]),
    "secp256k1_ecdsa_recoverable_signature_save": (0, [1, 2, 3]),
    "secp256k1_musig_partial_sig_save": (0, [1]),
}
ZERO_CONSTS = {"secp256k1_scalar_zero"}


def flag_of(e, fn_zero_ints=()):
    """Interpret a flag expression: returns (var, pol) meaning "flag != 0  <=>  var ==0 (pol 0) / var != 0 (pol 1)"."""
    e = strip(e)
    k = kind(e)
    if k == "var":
        return (e[1], 1)
    if k == "un" and e[1] == "!":
        r = flag_of(e[2])
        if r:
            return (r[0], 1 - r[1])
    if k == "bin" and e[1] in ("==", "!="):
        for a, b in ((e[2], e[3]), (e[3], e[2])):
            if is_int(b, 0) and kind(strip(a)) == "var":
                return (strip(a)[1], 0 if e[1] == "==" else 1)
    return None


def root_of(e):
    r = lvalue_root(e)
    if r is not None and kind(r) == "var":
        return r[1]
    return None


def is_whole(fn, arg, root):
    """Does pointer expression arg denote the start of the whole object named root?"""
    a = strip(arg)
    while kind(a) in ("addr", "decay"):
        a = strip(a[1])
        if kind(a) == "index" and is_int(a[2], 0):
            a = strip(a[1])
    if kind(a) == "var":
        return a[1] == root
    if kind(a) == "member":     # p->data where data is the first/only field
        b = strip(a[1])
        if kind(b) == "deref" and kind(strip(b[1])) == "var":
            return True
    if kind(a) == "deref" and kind(strip(a[1])) == "var":
        return True
    return False


class ZofFn:
    """Analysis of one function for a set of tracked root variables."""

    def __init__(self, zof, fn, tracked, entry=None, nonnull=None):
        self.zof = zof
        self.fn = fn
        self.tracked = set(tracked)
        self.entry = entry or {}
        self.nonnull = set(nonnull or ())
        self.extent = {}
        self.zero_ints = set()
        for v in fn.locals:
            pass
        self.inn = {}
        self._pseudo = {}
        self._find_zero_ints()
        self._solve()

    def _find_zero_ints(self):
        for el in self.fn.elems():
            if kind(el.e) == "decls":
                for d in el.e[1:]:
                    if d[2] is not None and is_int(d[2], 0):
                        v = self.fn.vars.get(d[1])
                        if v and v.get("const"):
                            self.zero_ints.add(d[1])

    def obj_bytes(self, root):
        v = self.fn.vars.get(root)
        if not v:
            return None
        if v.get("ptr"):
            pb = v.get("pointee_bytes")
            if pb and pb > 1:
                return pb
            return self.zof.contract_extent(self.fn.name, root)
        return v.get("bytes")

    # ---- state helpers
    @staticmethod
    def join_val(a, b):
        if a == b:
            return a
        if a == Z and b[0] == "C":
            return b
        if b == Z and a[0] == "C":
            return a
        return D

    def join(self, s1, s2):
        if s1 is None:
            return s2
        if s2 is None:
            return s1
        o1, f1 = s1
        o2, f2 = s2
        objs = {}
        for k in set(o1) | set(o2):
            a, b = o1.get(k, D), o2.get(k, D)
            j = self.join_val(a, b)
            if j == D and a != b:
                # path-sensitive join: zero on the side where v == 0 (resp. != 0), anything on the opposite side
                for (za, fa, fb) in ((a, f1, f2), (b, f2, f1)):
                    if za != Z:
                        continue
                    for (v, rel) in fa:
                        opp = (v, "!=0" if rel == "==0" else "==0")
                        if opp in fb:
                            j = C(v, 0 if rel == "==0" else 1)
                            break
                    if j != D:
                        break
            objs[k] = j
        return (objs, f1 & f2)

    def apply_facts(self, objs, facts):
        out = dict(objs)
        for k, v in objs.items():
            if v[0] == "C" and (v[1], "==0" if v[2] == 0 else "!=0") in facts:
                out[k] = Z
        return out

    def kill_var(self, st, var):
        objs, facts = st
        objs = {k: (D if (v[0] == "C" and v[1] == var) else v) for k, v in objs.items()}
        facts = frozenset(f for f in facts if f[0] != var)
        return (objs, facts)

    # ---- transfer
    def pseudo(self, call):
        return "$" + call[2].rsplit("/", 1)[-1] + ":" + (callee_name(call) or "?")

    def call_effect(self, st, call, result_var):
        """Effect of a call on tracked objects. result_var: the variable (or pseudo) that receives the result."""
        objs, facts = st
        objs = dict(objs)
        cal = callee_name(call)
        args = call[3]
        if cal == "memset" and len(args) == 3:
            r = root_of(args[0])
            if r in self.tracked:
                n = int_val(args[2])
                ext = self.obj_bytes(r)
                if is_int(args[1], 0) and is_whole(self.fn, args[0], r) and n is not None and ext is not None and n >= ext:
                    objs[r] = Z
                elif objs.get(r) != Z or not is_int(args[1], 0):
                    objs[r] = D
            return (objs, facts)
        if cal in ZERO_ALL:
            pi, li = ZERO_ALL[cal]
            r = root_of(args[pi])
            if r in self.tracked:
                n = int_val(args[li])
                ext = self.obj_bytes(r)
                if is_whole(self.fn, args[pi], r) and n is not None and ext is not None and n >= ext:
                    objs[r] = Z
                elif objs.get(r) != Z:
                    objs[r] = D
            return (objs, facts)
        if cal in ZERO_TYPED:
            r = root_of(args[ZERO_TYPED[cal]])
            if r in self.tracked and is_whole(self.fn, args[ZERO_TYPED[cal]], r):
                objs[r] = Z
            return (objs, facts)
        if cal == "secp256k1_memczero" and len(args) == 3:
            r = root_of(args[0])
            if r in self.tracked:
                n = int_val(args[1])
                ext = self.obj_bytes(r)
                fl = flag_of(args[2])
                cur = objs.get(r, D)
                if cur == Z:
                    pass
                elif fl and is_whole(self.fn, args[0], r) and n is not None and ext is not None and n >= ext:
                    # zero when flag != 0  <=>  var (pol)
                    objs[r] = C(fl[0], fl[1])
                else:
                    objs[r] = D
            return (objs, facts)
        if cal in ("secp256k1_scalar_cmov", "secp256k1_int_cmov", "secp256k1_fe_cmov") and len(args) == 3:
            r = root_of(args[0])
            if r in self.tracked:
                src = strip(args[1])
                zero_src = False
                if kind(src) == "addr":
                    s0 = strip(src[1])
                    if kind(s0) == "gvar" and s0[1] in ZERO_CONSTS:
                        zero_src = True
                    if kind(s0) == "var" and s0[1] in self.zero_ints:
                        zero_src = True
                    if kind(s0) == "var" and objs.get(s0[1]) == Z:
                        zero_src = True
                fl = flag_of(args[2])
                cur = objs.get(r, D)
                if cur == Z and zero_src:
                    pass
                elif zero_src and fl:
                    objs[r] = C(fl[0], fl[1])
                else:
                    objs[r] = D
            return (objs, facts)
        if cal == "secp256k1_scalar_set_int" and len(args) == 2:
            r = root_of(args[0])
            if r in self.tracked:
                objs[r] = Z if is_int(args[1], 0) else D
            return (objs, facts)
        if cal in COPY:
            di, srcs = COPY[cal]
            r = root_of(args[di]) if di < len(args) else None
            if r in self.tracked:
                acc = None
                for si in srcs:
                    sr = root_of(args[si]) if si < len(args) else None
                    sv = objs.get(sr, D) if sr in self.tracked else D
                    if sv == E:
                        sv = D
                    acc = sv if acc is None else self.join_val(acc, sv)
                whole = is_whole(self.fn, args[di], r)
                if whole:
                    objs[r] = acc if acc is not None else D
                else:
                    # partial write: only zero-ness of a zero object can survive
                    objs[r] = Z if (objs.get(r) == Z and acc == Z) else D
            return (objs, facts)
        # calls into analysed helpers: use summaries
        callee = self.zof.prog.functions.get(cal) if cal else None
        for i, a in enumerate(args):
            r = root_of(a)
            if r not in self.tracked:
                continue
            a_ = strip(a)
            if kind(a_) == "var" and not (self.fn.vars.get(r, {}).get("ptr")) and not kind(a_) == "decay":
                continue    # passed by value
            if param_is_const_ptr(cal, i):
                continue
            if callee is None or not callee.blocks:
                objs[r] = D
                continue
            summ = self.zof.summary(cal, i)
            cur = objs.get(r, D)
            whole = is_whole(self.fn, a, r)
            if summ == ("KEEP",):
                continue
            if not whole:
                objs[r] = D
                continue
            if summ == ("Z",):
                objs[r] = Z
            elif summ == ("ZF",) and result_var:
                objs[r] = C(result_var, 0)
            elif summ == ("ZF_IF_ENTRY_Z",) and result_var and cur == Z:
                objs[r] = C(result_var, 0)
            elif summ == ("ZS",) and result_var:
                objs[r] = C(result_var, 1)
            elif summ[0] == "CF":
                fa = args[summ[1]] if summ[1] < len(args) else None
                fl = flag_of(fa) if fa is not None else None
                if fa is not None and is_int(fa):
                    v = int_val(fa)
                    objs[r] = Z if ((v != 0) == (summ[2] == 1)) else (cur if False else D)
                elif fl:
                    pol = fl[1] if summ[2] == 1 else 1 - fl[1]
                    objs[r] = C(fl[0], pol) if cur != Z else Z
                else:
                    objs[r] = D if cur != Z else D
            else:
                objs[r] = D
        return (objs, facts)

    def stmt(self, st, el):
        e = el.e
        k = kind(e)
        objs, facts = st
        # find calls and the variable receiving their result
        def handle_expr(x, st, result_var=None):
            kx = kind(x)
            if kx == "call":
                for a in x[3]:
                    st = handle_nested(a, st)
                return self.call_effect(st, x, result_var or self.pseudo(x))
            return handle_nested(x, st)

        def handle_nested(x, st):
            for c in children(x) if kind(x) != "call" else []:
                st = handle_expr(c, st)
            if kind(x) == "call":
                st = handle_expr(x, st)
            return st

        if k == "decls":
            for d in e[1:]:
                if d[2] is not None:
                    st = self.assign(st, ["var", d[1]], "=", d[2])
            return st
        if k == "assign":
            return self.assign(st, e[2], e[1], e[3])
        if k == "return":
            if e[1] is not None:
                st = handle_expr(strip(e[1]), st)
            return st
        return handle_expr(e, st)

    def assign(self, st, lhs, op, rhs):
        lhs_s = strip(lhs)
        rhs_s = strip(rhs)
        # evaluate calls in rhs first
        target = lhs_s[1] if kind(lhs_s) == "var" else None
        calls = [x for x in walk(rhs_s) if x[0] == "call"]
        direct = kind(rhs_s) == "call" or (kind(rhs_s) == "un" and rhs_s[1] == "!" and kind(strip(rhs_s[2])) == "call")
        if target is not None:
            objs, facts = st
            had_nonzero = (target, "!=0") in facts
            if op == "=" or (op == "&=" and had_nonzero):
                st = self.kill_var(st, target)
                for c in calls:
                    rv = target if (direct and kind(rhs_s) == "call" and c is rhs_s) else self.pseudo(c)
                    st = self.call_effect(st, c, rv)
                if kind(rhs_s) == "un" and rhs_s[1] == "!" and kind(strip(rhs_s[2])) == "call":
                    # target = !call(): zero-on-fail of call means zero when target != 0
                    c = strip(rhs_s[2])
                    ps = self.pseudo(c)
                    objs, facts = st
                    objs = {k: (C(target, 1 - v[2]) if (v[0] == "C" and v[1] == ps) else v) for k, v in objs.items()}
                    st = (objs, facts)
                if is_int(rhs_s):
                    objs, facts = st
                    facts = facts | {(target, "==0" if int_val(rhs_s) == 0 else "!=0")}
                    st = (objs, facts)
                return st
            # other compound assignment: the variable changes in an unknown way
            for c in calls:
                st = self.call_effect(st, c, self.pseudo(c))
            return self.kill_var(st, target)
        # store into a tracked object
        for c in calls:
            st = self.call_effect(st, c, self.pseudo(c))
        r = root_of(lhs_s)
        if r in self.tracked and kind(lhs_s) != "var":
            objs, facts = st
            objs = dict(objs)
            if kind(rhs_s) == "gvar" and rhs_s[1] in ZERO_CONSTS and kind(lhs_s) == "deref":
                objs[r] = Z
            elif is_int(rhs_s, 0) and objs.get(r) == Z:
                pass
            else:
                objs[r] = D
            st = (objs, facts)
        return st

    def refine(self, st, cond, pol):
        """Facts and object states on the edge where cond is true (pol) / false."""
        objs, facts = st
        c = strip(cond)
        while kind(c) == "un" and c[1] == "!":
            c = strip(c[2])
            pol = not pol
        var = None
        if kind(c) == "var":
            var = c[1]
        elif kind(c) == "call":
            var = self.pseudo(c)
        elif kind(c) == "bin" and c[1] in ("==", "!="):
            for a, b in ((c[2], c[3]), (c[3], c[2])):
                a_ = strip(a)
                if is_int(b, 0) and kind(a_) in ("var", "call"):
                    var = a_[1] if kind(a_) == "var" else self.pseudo(a_)
                    if c[1] == "==":
                        pol = not pol
        if var is None:
            return st
        if var in self.nonnull and not pol:
            return None     # null-literal specialisation: this pointer parameter is an address at every analysed call
        facts = frozenset(f for f in facts if f[0] != var) | {(var, "!=0" if pol else "==0")}
        return (self.apply_facts(objs, facts), facts)

    def _solve(self):
        fn = self.fn
        order = fn.rpo()
        inn = {b: None for b in order}
        init = {t: self.entry.get(t, E) for t in self.tracked}
        inn[fn.entry] = (init, frozenset())
        work = list(order)
        guard = 0
        while work and guard < 5000:
            guard += 1
            b = work.pop(0)
            if inn[b] is None:
                continue
            st = inn[b]
            blk = fn.blocks[b]
            for el in blk.elems:
                if el.top:
                    st = self.stmt(st, el)
            for (s, pol) in fn.succ_edges(b):
                if s is None or s not in inn:
                    continue
                e = st
                if pol is not None and blk.cond is not None:
                    e = self.refine(st, blk.cond, pol)
                    if e is None:
                        continue
                new = self.join(inn[s], e)
                if inn[s] is None or new != inn[s]:
                    inn[s] = new
                    if s not in work:
                        work.append(s)
        if guard >= 5000:
            raise AnalysisBroken("zof: no fixpoint in %s" % fn.name)
        self.inn = inn

    def state_before(self, el):
        st = self.inn.get(el.blk)
        if st is None:
            return None
        for x in self.fn.blocks[el.blk].elems:
            if x is el:
                break
            if x.top:
                st = self.stmt(st, x)
        return st

    def returns(self):
        """[(elem, state_at_return_after_evaluating_its_expression, retexpr)]"""
        out = []
        for el in self.fn.returns():
            st = self.state_before(el)
            if st is None:
                continue
            st2 = self.stmt(st, el)
            out.append((el, st2, el.e[1]))
        return out


class Zof:
    def __init__(self, prog, contract_extents):
        self.prog = prog
        self._sum = {}
        self._busy = set()
        self.extents = contract_extents
        self._contract_only = None

    def contract_extent(self, fname, param):
        return self.extents.get("%s:%s" % (fname, param)) or self.extents.get("*:%s" % param)

    # -- contract-only-failing functions: every `return 0` is an ARG_CHECK expansion (least fixpoint)
    def contract_only(self):
        if self._contract_only is not None:
            return self._contract_only
        co = set()
        changed = True
        while changed:
            changed = False
            for n, f in self.prog.functions.items():
                if n in co or f.ret != "int" or not f.blocks:
                    continue
                ok = True
                any_zero = False
                for el in f.returns():
                    e = el.e[1]
                    if e is None:
                        continue
                    if is_int(e) and int_val(e) != 0:
                        continue
                    if "ARG_CHECK" in el.macros:
                        any_zero = True
                        continue
                    if is_int(e, 0) and self._guarded_by_contract_fail(f, el, co):
                        any_zero = True
                        continue
                    ok = False
                    break
                if ok and any_zero:
                    co.add(n)
                    changed = True
        self._contract_only = co
        return co

    def _guarded_by_contract_fail(self, f, el, co):
        """Is the block of el entered only through the `== 0` edge of a branch on a contract-only callee?"""
        b = f.blocks[el.blk]
        if len(b.preds) != 1:
            return False
        p = f.blocks[b.preds[0]]
        if p.cond is None:
            return False
        c = strip(p.cond)
        pol = True
        while kind(c) == "un" and c[1] == "!":
            c = strip(c[2])
            pol = not pol
        if kind(c) != "call" or callee_name(c) not in co:
            return False
        edges = f.succ_edges(p.id)
        for (s, epol) in edges:
            if s == el.blk:
                # we are on the edge where cond (after stripping) has truth value: epol == pol means call != 0
                call_nonzero = (epol == pol)
                return not call_nonzero
        return False

    def summary(self, fname, pi):
        key = (fname, pi)
        if key in self._sum:
            return self._sum[key]
        if key in self._busy:
            return D
        f = self.prog.functions.get(fname)
        if f is None or not f.blocks or pi >= len(f.params):
            return D
        p = f.params[pi]
        if not p.get("ptr") or p.get("pointee_const"):
            self._sum[key] = ("KEEP",)
            return ("KEEP",)
        self._busy.add(key)
        try:
            name = p["name"]
            a = ZofFn(self, f, [name], nonnull=[name])
            rets = a.returns()
            states_fail, states_ok, states_all = [], [], []
            if f.ret == "void":
                for b in f.blocks.values():
                    pass
            for el, st, e in rets:
                objs, facts = st
                v = objs.get(name, D)
                if e is None:
                    states_all.append((v, None))
                    continue
                es = strip(e)
                if is_int(es):
                    (states_fail if int_val(es) == 0 else states_ok).append((v, None))
                elif kind(es) == "var":
                    states_fail.append((v, es[1]))
                    states_ok.append((v, es[1]))
                else:
                    states_fail.append((v, "?"))
                    states_ok.append((v, "?"))
            # void functions: state at the exit block's predecessors
            if f.ret == "void":
                ex = None
                for bid in f.blocks[f.exit].preds:
                    st = a.inn.get(bid)
                    if st is None:
                        continue
                    for x in f.blocks[bid].elems:
                        if x.top:
                            st = a.stmt(st, x)
                    v = st[0].get(name, D)
                    ex = v if ex is None else a.join_val(ex, v)
                res = D
                if ex == Z:
                    res = ("Z",)
                elif ex == E:
                    res = ("KEEP",)
                elif ex is not None and ex[0] == "C" and ex[1] in f.param_index:
                    res = ("CF", f.param_index[ex[1]], ex[2])
                self._sum[key] = res
                return res
            def okfail(v, rv):
                return v == Z or (v[0] == "C" and v[2] == 0 and v[1] == rv)
            def oksucc(v, rv):
                return v == Z or (v[0] == "C" and v[2] == 1 and v[1] == rv)
            res = D
            allv = [v for v, _ in states_fail + states_ok]
            if allv and all(v == Z for v in allv):
                res = ("Z",)
            elif allv and all(v == E for v in allv):
                res = ("KEEP",)
            elif states_fail and all(okfail(v, rv) for v, rv in states_fail):
                res = ("ZF",)
            elif states_fail and all(okfail(v, rv) or v == E for v, rv in states_fail):
                res = ("ZF_IF_ENTRY_Z",)
            elif states_ok and all(oksucc(v, rv) for v, rv in states_ok):
                res = ("ZS",)
            self._sum[key] = res
            return res
        finally:
            self._busy.discard(key)


# ------------------------------------------------------------------ rule R-ZOF

def _load_instances():
    from core import load_table
    return load_table("zof_instances.json")


def obligations(prog):
    tab = _load_instances()
    zof = Zof(prog, tab["extents"])
    co = zof.contract_only()
    obs = []
    for inst in tab["instances"]:
        fname, obj, mode = inst["function"], inst["object"], inst["mode"]
        props = set(inst["props"])
        f = prog.functions.get(fname)
        if f is None:
            raise AnalysisBroken("R-ZOF: function %s (tables/zof_instances.json) vanished" % fname)
        if obj not in f.vars:
            raise AnalysisBroken("R-ZOF: object %s of %s vanished" % (obj, fname))
        a = ZofFn(zof, f, list(f.vars), entry={v["name"]: D for v in f.locals})
        n = 0
        for el, st, e in sorted(a.returns(), key=lambda t: (int(t[0].loc.rsplit(":", 1)[1]))):
            objs, facts = st
            v = objs.get(obj, D)
            es = strip(e) if e is not None else None
            macros = el.macros
            is_null_check = False
            if "ARG_CHECK" in macros or "ARG_CHECK_VOID" in macros:
                # the return that belongs to ARG_CHECK(obj != NULL)
                b = f.blocks[el.blk]
                for pb in b.preds:
                    c = f.blocks[pb].cond
                    if c is not None and obj in vars_in(c) and len(vars_in(c)) == 1 and not calls_in(c):
                        is_null_check = True
            if is_null_check:
                continue
            contract = ("ARG_CHECK" in macros) or (es is not None and is_int(es, 0) and zof._guarded_by_contract_fail(f, el, co))
            # can the return value be 0 / nonzero?
            can_zero, can_nonzero, rv = True, True, None
            if es is None:
                pass
            elif is_int(es):
                can_zero = int_val(es) == 0
                can_nonzero = not can_zero
            elif kind(es) == "var":
                rv = es[1]
                if (rv, "!=0") in facts:
                    can_zero = False
                if (rv, "==0") in facts:
                    can_nonzero = False
            elif kind(es) == "call":
                rv = a.pseudo(es)
            need = None
            if mode == "zero_on_fail":
                if contract or not can_zero:
                    continue
                need = "fail"
            elif mode == "zero_on_fail_strict":
                if not can_zero:
                    continue
                need = "fail"
            elif mode == "zero_always":
                need = "always"
            elif mode == "zero_on_success":
                if not can_nonzero:
                    continue
                need = "success"
            ok = False
            if v == Z:
                ok = True
            elif v[0] == "C" and rv is not None and v[1] == rv:
                ok = (need == "fail" and v[2] == 0) or (need == "success" and v[2] == 1)
            n += 1
            oid = "R-ZOF:%s:%s:%s#%d" % (fname, obj, mode, n)
            what = {"fail": "all-zero whenever this return yields 0", "always": "all-zero at this return",
                    "success": "all-zero whenever this return yields non-zero"}[need]
            sv = {"Z": "all-zero", "E": "untouched (entry contents)", "D": "possibly non-zero"}.get(v[0]) or \
                ("zero when %s %s 0" % (v[1], "==" if v[2] == 0 else "!="))
            obs.append(Obligation("R-ZOF", oid, el.loc, fname,
                                  "%s must be %s (`%s`)" % (obj, what, show(el.e)[:60]), ok,
                                  "state of %s at this return: %s" % (obj, sv), props=props))
        if n == 0:
            raise AnalysisBroken("R-ZOF: no return of %s carries an obligation for %s" % (fname, obj))
    return obs, {"instances": len(tab["instances"]), "contract_only_failing": len(co)}


if __name__ == "__main__":
    import sys
    prog = program("K0")
    obs, st = obligations(prog)
    print(st)
    for o in obs:
        if not o.ok or "-v" in sys.argv:
            print("OK  " if o.ok else "VIOL", o.oid, o.loc, o.text, "--", o.detail)
    print(len(obs), "obligations,", sum(1 for o in obs if not o.ok), "failing")
