"""R-PACK — byte <-> limb packing of field elements and scalars is the canonical big-endian bit layout, in every
configuration (writer and reader tables agreeing, decided bit by bit).

secp256k1_fe_set_b32_mod / fe_get_b32 / fe_to_storage / fe_from_storage / scalar_set_b32 / scalar_get_b32 and the
read_be / write_be helpers are straight-line shuffles of bits (shifts, masks, ors).  The rule evaluates their statement
trees (clang AST via sx, per configuration: 5x52 and 10x26 field limbs, 4x64 and 8x32 scalar words) over a symbolic bit
domain — every input bit is a symbol, constants are 0/1 — and compares the resulting output bits with the layout the
representation defines: integer bit p of the 256-bit value lives in byte 31 - p/8 (bit p%8), in limb p/W (bit p%W) and in
storage word p/S (bit p%S).  Nothing is executed; a shift of 20 where 22 belongs (it would only show on a 32-bit build,
which the pinned suite never compiles) leaves two output bits on the wrong symbols.
"""
from sxlib import *
from core import Obligation

MASK64 = (1 << 64) - 1


class Unknown(Exception):
    pass


def _const(v):
    return {i: 1 for i in range(v.bit_length()) if (v >> i) & 1}


class Packer:
    """Symbolic evaluation of one straight-line function."""

    def __init__(self, prog, f, inputs):
        # inputs: {("bytes", param): None, ("limbs", param, member): valid-bits function}
        self.prog, self.f, self.inputs = prog, f, inputs
        self.out = {}          # (kind, name, index) -> bits
        self.env = {}

    def sym_bytes(self, name, k):
        return {j: ("b", name, k, j) for j in range(8)}

    def sym_limb(self, name, member, k, width, valid):
        return {j: ("l", name, member, k, j) for j in range(min(width, valid(k)))}

    def lhs_key(self, e):
        e = strip(e)
        if kind(e) == "index" and is_int(e[2]):
            b = strip(e[1])
            if kind(b) == "var":
                return ("bytes", b[1], int_val(e[2])), 8
            if kind(b) == "decay":
                m = strip(b[1])
                if kind(m) == "member" and kind(strip(m[1])) == "deref" and kind(strip(strip(m[1])[1])) == "var":
                    return ("limbs", strip(strip(m[1])[1])[1] + "->" + m[2], int_val(e[2])), (b[3] or 8) * 8
        if kind(e) == "var":
            return ("var", e[1], 0), 64
        raise Unknown("unsupported left-hand side %s" % show(e))

    def ev(self, e):
        e0 = e
        e = strip(e) if kind(e) != "narrow" else e
        k = kind(e)
        if k == "narrow":
            v = self.ev(e[3])
            return {p: b for p, b in v.items() if p < e[2]}
        if k == "int":
            return _const(int_val(e) & MASK64)
        if k == "var":
            if e[1] in self.env:
                return dict(self.env[e[1]])
            raise Unknown("variable %s" % e[1])
        if k == "index" and is_int(e[2]):
            b = strip(e[1])
            idx = int_val(e[2])
            if kind(b) == "var" and ("bytes", b[1]) in self.inputs:
                return self.sym_bytes(b[1], idx)
            if kind(b) == "var" and ("bytes", b[1], idx) in self.out:
                return dict(self.out[("bytes", b[1], idx)])
            if kind(b) == "decay":
                m = strip(b[1])
                if kind(m) == "member" and kind(strip(m[1])) == "deref" and kind(strip(strip(m[1])[1])) == "var":
                    pn = strip(strip(m[1])[1])[1]
                    key = ("limbs", pn, m[2])
                    if key in self.inputs:
                        return self.sym_limb(pn, m[2], idx, (b[3] or 8) * 8, self.inputs[key])
                    ok = ("limbs", pn + "->" + m[2], idx)
                    if ok in self.out:
                        return dict(self.out[ok])
            raise Unknown("read of %s" % show(e))
        if k == "bin":
            op = e[1]
            if op in ("<<", ">>"):
                if not is_int(e[3]):
                    raise Unknown("variable shift")
                s = int_val(e[3])
                v = self.ev(e[2])
                if op == "<<":
                    return {p + s: b for p, b in v.items() if p + s < 64}
                return {p - s: b for p, b in v.items() if p - s >= 0}
            a, b = self.ev(e[2]), self.ev(e[3])
            if op == "&":
                out = {}
                for p in set(a) & set(b):
                    if a[p] == 1:
                        out[p] = b[p]
                    elif b[p] == 1:
                        out[p] = a[p]
                    elif a[p] == b[p]:
                        out[p] = a[p]
                    else:
                        raise Unknown("and of two symbols")
                return out
            if op in ("|", "+", "^"):
                out = dict(a)
                for p, x in b.items():
                    if p in out and not (op == "|" and out[p] == x):
                        raise Unknown("overlapping operands of %s" % op)
                    out[p] = x
                return out
            raise Unknown("operator %s" % op)
        if k == "call":
            n = callee_name(e)
            if n in ("secp256k1_read_be32", "secp256k1_read_be64") and e[3]:
                nb = 4 if n.endswith("32") else 8
                a = strip(e[3][0])
                if kind(a) == "addr":
                    a = strip(a[1])
                    if kind(a) == "index" and is_int(a[2]) and kind(strip(a[1])) == "var" and ("bytes", strip(a[1])[1]) in self.inputs:
                        base, nm = int_val(a[2]), strip(a[1])[1]
                        out = {}
                        for i in range(nb):
                            for j in range(8):
                                out[8 * (nb - 1 - i) + j] = ("b", nm, base + i, j)
                        return out
                elif kind(a) == "var" and ("bytes", a[1]) in self.inputs:
                    out = {}
                    for i in range(nb):
                        for j in range(8):
                            out[8 * (nb - 1 - i) + j] = ("b", a[1], i, j)
                    return out
            raise Unknown("call %s" % n)
        raise Unknown("expression %s" % show(e0)[:60])

    def run(self):
        f = self.f
        # straight-line: walk the blocks in reverse post-order, no branches allowed to matter
        for bid in f.rpo():
            for el in f.blocks[bid].elems:
                if not el.top:
                    continue
                e = el.e
                k = kind(e)
                if k == "assign":
                    try:
                        key, width = self.lhs_key(e[2])
                    except Unknown:
                        continue          # a store to something that is not a limb / byte of the output (`*overflow = over`)
                    try:
                        v = self.ev(e[3])
                    except Unknown:
                        if key[0] == "var":
                            self.env.pop(key[1], None)      # a scratch variable computed from something else (`over = reduce(..)`)
                            continue
                        raise
                    if e[1] == "|=":
                        old = self.out.get(key, {}) if key[0] != "var" else self.env.get(key[1], {})
                        for p, x in old.items():
                            if p in v and v[p] != x:
                                raise Unknown("overlap in |=")
                            v[p] = x
                    elif e[1] != "=":
                        raise Unknown("assignment operator %s" % e[1])
                    v = {p: b for p, b in v.items() if p < width}
                    if key[0] == "var":
                        self.env[key[1]] = v
                    else:
                        self.out[key] = v
                elif k == "decls":
                    for d in e[1:]:
                        if d[2] is not None:
                            self.env[d[1]] = self.ev(d[2])
                elif k == "call" and callee_name(e) in ("secp256k1_write_be32", "secp256k1_write_be64"):
                    nb = 4 if callee_name(e).endswith("32") else 8
                    a = strip(e[3][0])
                    base, nm = 0, None
                    if kind(a) == "addr" and kind(strip(a[1])) == "index" and is_int(strip(a[1])[2]) and kind(strip(strip(a[1])[1])) == "var":
                        base, nm = int_val(strip(a[1])[2]), strip(strip(a[1])[1])[1]
                    elif kind(a) == "var":
                        nm = a[1]
                    if nm is None:
                        raise Unknown("write_be target")
                    v = self.ev(e[3][1])
                    for i in range(nb):
                        self.out[("bytes", nm, base + i)] = {j: v[8 * (nb - 1 - i) + j] for j in range(8) if 8 * (nb - 1 - i) + j in v}
                # everything else (VERIFY helpers, void calls) has no effect on the packing
        return self.out


def _layout(prog):
    """Limb / word counts and widths from the struct layouts of this configuration."""
    def arr(struct, field):
        st = prog.structs.get(struct) or prog.structs.get("struct " + struct) or {}
        fl = next((x for x in st.get("fields", []) if x["name"] == field), None)
        if not fl:
            raise AnalysisBroken("R-PACK: struct %s has no field %s" % (struct, field))
        n = fl.get("array_n") or 0
        return n, (fl["bytes"] // n) * 8 if n else 0
    fn, fw = arr("secp256k1_fe", "n")
    sn, sw = arr("secp256k1_scalar", "d")
    tn, tw = arr("secp256k1_fe_storage", "n")
    W = {5: 52, 10: 26}.get(fn)
    if W is None:
        raise AnalysisBroken("R-PACK: unknown field representation n[%d]" % fn)
    return {"fe_n": fn, "fe_word": fw, "W": W, "sc_n": sn, "sc_w": sw, "st_n": tn, "st_w": tw}


def obligations(prog):
    L = _layout(prog)
    W, fn = L["W"], L["fe_n"]
    obs = []

    def fe_valid(k):
        return min(W, 256 - W * k)

    def full(width):
        return lambda k: width

    def byte_sym(name, p):
        return ("b", name, 31 - p // 8, p % 8)

    def check(fname, inputs, expect, what, props, n_out):
        f = prog.functions.get(fname)
        if f is None or not f.blocks:
            raise AnalysisBroken("R-PACK: function %s vanished" % fname)
        try:
            out = Packer(prog, f, inputs).run()
        except Unknown as ex:
            obs.append(Obligation("R-PACK", "R-PACK:%s" % fname, f.loc, fname, what, False,
                                  "not a straight-line bit shuffle any more (%s): cannot be decided bit by bit" % ex, props=props))
            return
        bad = []
        seen = 0
        for key, want in expect.items():
            got = out.get(key, {})
            seen += 1
            got = {p: b for p, b in got.items() if b != 0}
            if got != want:
                diff = sorted(set(got.items()) ^ set(want.items()), key=repr)[:3]
                bad.append("%s[%d]: %s" % (key[1], key[2], ", ".join("bit %d is %s" % (p, b if (p, b) in got.items() else "missing (should be %s)" % (b,)) for p, b in diff)))
        ok = not bad and seen == n_out
        obs.append(Obligation("R-PACK", "R-PACK:%s" % fname, f.loc, fname, what, ok,
                              ("all %d output words / bytes carry exactly the bits the layout defines" % seen) if ok else "; ".join(bad[:3]), props=props))

    kern = {"C05", "C03", "C02"}
    # bytes -> field limbs
    exp = {}
    for k in range(fn):
        exp[("limbs", "r->n", k)] = {b: byte_sym("a", W * k + b) for b in range(fe_valid(k))}
    check("secp256k1_fe_set_b32_mod", {("bytes", "a"): None}, exp,
          "secp256k1_fe_set_b32_mod packs the 32 big-endian bytes into %d limbs of %d bits" % (fn, W), kern, fn)
    # field limbs -> bytes
    exp = {}
    for i in range(32):
        exp[("bytes", "r", i)] = {j: ("l", "a", "n", (8 * (31 - i) + j) // W, (8 * (31 - i) + j) % W) for j in range(8)}
    check("secp256k1_fe_get_b32", {("limbs", "a", "n"): fe_valid}, exp,
          "secp256k1_fe_get_b32 unpacks %d normalized limbs of %d bits into 32 big-endian bytes" % (fn, W), kern, 32)
    # limbs <-> storage words
    S, tn = L["st_w"], L["st_n"]
    exp = {}
    for k in range(tn):
        exp[("limbs", "r->n", k)] = {b: ("l", "a", "n", (S * k + b) // W, (S * k + b) % W) for b in range(S)}
    check("secp256k1_fe_to_storage", {("limbs", "a", "n"): fe_valid}, exp,
          "secp256k1_fe_to_storage packs %d limbs of %d bits into %d words of %d bits" % (fn, W, tn, S), {"C05"}, tn)
    exp = {}
    for k in range(fn):
        exp[("limbs", "r->n", k)] = {b: ("l", "a", "n", (W * k + b) // S, (W * k + b) % S) for b in range(fe_valid(k))}
    check("secp256k1_fe_from_storage", {("limbs", "a", "n"): full(S)}, exp,
          "secp256k1_fe_from_storage unpacks %d words of %d bits into %d limbs of %d bits" % (tn, S, fn, W), {"C05"}, fn)
    # scalars
    sw, sn = L["sc_w"], L["sc_n"]
    exp = {}
    for k in range(sn):
        exp[("limbs", "r->d", k)] = {b: byte_sym("b32", sw * k + b) for b in range(sw)}
    check("secp256k1_scalar_set_b32", {("bytes", "b32"): None}, exp,
          "secp256k1_scalar_set_b32 reads the 32 big-endian bytes into %d words of %d bits" % (sn, sw), kern | {"C01", "C04"}, sn)
    exp = {}
    for i in range(32):
        exp[("bytes", "bin", i)] = {j: ("l", "a", "d", (8 * (31 - i) + j) // sw, (8 * (31 - i) + j) % sw) for j in range(8)}
    check("secp256k1_scalar_get_b32", {("limbs", "a", "d"): full(sw)}, exp,
          "secp256k1_scalar_get_b32 writes %d words of %d bits as 32 big-endian bytes" % (sn, sw), kern | {"C01", "C04"}, 32)
    # the big-endian helpers themselves
    for nb in (4, 8):
        fname = "secp256k1_read_be%d" % (nb * 8)
        f = prog.functions.get(fname)
        if f is not None and f.blocks:
            try:
                pk = Packer(prog, f, {("bytes", "p"): None})
                pk.run()
                rets = [el for el in f.returns()]
                v = pk.ev(rets[0].e[1]) if rets else {}
                want = {8 * (nb - 1 - i) + j: ("b", "p", i, j) for i in range(nb) for j in range(8)}
                obs.append(Obligation("R-PACK", "R-PACK:%s" % fname, f.loc, fname, "%s reads %d bytes big-endian" % (fname, nb), v == want,
                                      "all %d bits in place" % (8 * nb) if v == want else "bit layout differs", props={"C05"}))
            except Unknown as ex:
                obs.append(Obligation("R-PACK", "R-PACK:%s" % fname, f.loc, fname, "%s reads %d bytes big-endian" % (fname, nb), False, str(ex), props={"C05"}))
    if len(obs) < 7:
        raise AnalysisBroken("R-PACK: only %d packing functions analysed" % len(obs))
    return obs, {"functions": len(obs), "representation": "%dx%d field, %dx%d scalar" % (fn, W, sn, sw)}


if __name__ == "__main__":
    import sys
    for cfg in (sys.argv[1:] or ["K0", "K3"]):
        obs, st = obligations(program(cfg))
        print(cfg, st)
        for o in obs:
            print("  OK  " if o.ok else "  VIOL", o.oid, "|", o.detail[:200])
