"""R-PACK — byte <-> limb packing of field elements and scalars is the canonical big-endian bit layout, in every
configuration (writer and reader tables agreeing, decided bit by bit).

secp256k1_fe_set_b32_mod / fe_get_b32 / fe_to_storage / fe_from_storage / scalar_set_b32 / scalar_get_b32 and the
read_be / write_be helpers are straight-line shuffles of bits (shifts, masks, ors).  The rule evaluates their statement
trees (clang AST via sx, per configuration: 5x52 and 10x26 field limbs, 4x64 and 8x32 scalar words) over a symbolic bit
domain — every input bit is a symbol, constants are 0/1 — and compares the resulting output bits with the layout the
representation defines: integer bit p of the 256-bit value lives in byte 31 - p/8 (bit p%8), in limb p/W (bit p%W) and in
storage word p/S (bit p%S).  Nothing is executed; a shift of 20 where 22 belongs (it would only show on a 32-bit build,
which the pinned suite never compiles) leaves two output bits on the wrong symbols.
"""
from sxlib import *
from core import Obligation

MASK64 = (1 << 64) - 1


class Unknown(Exception):
    pass


def _const(v):
    return {i: 1 for i in range(v.bit_length()) if (v >> i) & 1}


class Packer:
    """Symbolic evaluation of one straight-line function."""

    def __init__(self, prog, f, inputs):
        # inputs: {("bytes", param): None, ("limbs", param, member): valid-bits function}
        self.prog, self.f, self.inputs = prog, f, inputs
        self.out = {}          # (kind, name, index) -> bits
        self.env = {}
        self.ints = {}         # integer locals with a known constant value (loop counters of fixed-count loops)
        self.partial = None    # why the walk stopped before the end of the function, if it did

    def ival(self, e):
        """Concrete value of an integer expression over literals and counters with known values, else None."""
        e = strip(e)
        k = kind(e)
        if k == "int":
            return int_val(e)
        if k == "var":
            return self.ints.get(e[1])
        if k == "bin" and e[1] in ("+", "-", "*", "/", "%", "<<", ">>"):
            a, b = self.ival(e[2]), self.ival(e[3])
            if a is None or b is None or (e[1] in ("/", "%") and b == 0):
                return None
            return {"+": a + b, "-": a - b, "*": a * b, "/": a // b if b else 0, "%": a % b if b else 0, "<<": a << b, ">>": a >> b}[e[1]]
        return None

    def cond(self, c):
        c = strip(c)
        if kind(c) == "un" and c[1] == "!":
            v = self.cond(c[2])
            return None if v is None else (not v)
        if kind(c) == "bin" and c[1] in ("<", "<=", ">", ">=", "==", "!="):
            a, b = self.ival(c[2]), self.ival(c[3])
            if a is None or b is None:
                return None
            return {"<": a < b, "<=": a <= b, ">": a > b, ">=": a >= b, "==": a == b, "!=": a != b}[c[1]]
        v = self.ival(c)
        return None if v is None else (v != 0)

    def sym_bytes(self, name, k):
        return {j: ("b", name, k, j) for j in range(8)}

    def sym_limb(self, name, member, k, width, valid):
        return {j: ("l", name, member, k, j) for j in range(min(width, valid(k)))}

    def lhs_key(self, e):
        e = strip(e)
        if kind(e) == "index" and self.ival(e[2]) is not None:
            e = ["index", e[1], ["int", str(self.ival(e[2])), 32]]
            b = strip(e[1])
            if kind(b) == "var":
                return ("bytes", b[1], int_val(e[2])), 8
            if kind(b) == "decay":
                m = strip(b[1])
                if kind(m) == "member" and kind(strip(m[1])) == "deref" and kind(strip(strip(m[1])[1])) == "var":
                    return ("limbs", strip(strip(m[1])[1])[1] + "->" + m[2], int_val(e[2])), (b[3] or 8) * 8
        if kind(e) == "var":
            return ("var", e[1], 0), 64
        raise Unknown("unsupported left-hand side %s" % show(e))

    def ev(self, e):
        e0 = e
        e = strip(e) if kind(e) != "narrow" else e
        k = kind(e)
        if k == "narrow":
            v = self.ev(e[3])
            return {p: b for p, b in v.items() if p < e[2]}
        if k == "int":
            return _const(int_val(e) & MASK64)
        if k == "var":
            if e[1] in self.env:
                return dict(self.env[e[1]])
            if e[1] in self.ints:
                return _const(self.ints[e[1]] & MASK64)
            raise Unknown("variable %s" % e[1])
        if k == "index" and self.ival(e[2]) is not None:
            b = strip(e[1])
            idx = self.ival(e[2])
            if kind(b) == "var" and ("bytes", b[1]) in self.inputs:
                return self.sym_bytes(b[1], idx)
            if kind(b) == "var" and ("bytes", b[1], idx) in self.out:
                return dict(self.out[("bytes", b[1], idx)])
            if kind(b) == "decay":
                m = strip(b[1])
                if kind(m) == "member" and kind(strip(m[1])) == "deref" and kind(strip(strip(m[1])[1])) == "var":
                    pn = strip(strip(m[1])[1])[1]
                    key = ("limbs", pn, m[2])
                    if key in self.inputs:
                        return self.sym_limb(pn, m[2], idx, (b[3] or 8) * 8, self.inputs[key])
                    ok = ("limbs", pn + "->" + m[2], idx)
                    if ok in self.out:
                        return dict(self.out[ok])
            raise Unknown("read of %s" % show(e))
        if k == "bin":
            op = e[1]
            if op in ("<<", ">>"):
                if self.ival(e[3]) is None or self.ival(e[3]) < 0:
                    raise Unknown("variable shift")
                s = self.ival(e[3])
                v = self.ev(e[2])
                if op == "<<":
                    return {p + s: b for p, b in v.items() if p + s < 64}
                return {p - s: b for p, b in v.items() if p - s >= 0}
            a, b = self.ev(e[2]), self.ev(e[3])
            if op == "&":
                out = {}
                for p in set(a) & set(b):
                    if a[p] == 1:
                        out[p] = b[p]
                    elif b[p] == 1:
                        out[p] = a[p]
                    elif a[p] == b[p]:
                        out[p] = a[p]
                    else:
                        raise Unknown("and of two symbols")
                return out
            if op in ("|", "+", "^"):
                out = dict(a)
                for p, x in b.items():
                    if p in out and not (op == "|" and out[p] == x):
                        if op == "|":
                            out[p] = ("conflict", out[p], x)       # two different bits or-ed into one position: never a layout
                            continue
                        raise Unknown("overlapping operands of %s" % op)
                    out[p] = x
                return out
            raise Unknown("operator %s" % op)
        if k == "call":
            n = callee_name(e)
            if n in ("secp256k1_read_be32", "secp256k1_read_be64") and e[3]:
                nb = 4 if n.endswith("32") else 8
                a = strip(e[3][0])
                if kind(a) == "addr":
                    a = strip(a[1])
                    if kind(a) == "index" and is_int(a[2]) and kind(strip(a[1])) == "var" and ("bytes", strip(a[1])[1]) in self.inputs:
                        base, nm = int_val(a[2]), strip(a[1])[1]
                        out = {}
                        for i in range(nb):
                            for j in range(8):
                                out[8 * (nb - 1 - i) + j] = ("b", nm, base + i, j)
                        return out
                elif kind(a) == "var" and ("bytes", a[1]) in self.inputs:
                    out = {}
                    for i in range(nb):
                        for j in range(8):
                            out[8 * (nb - 1 - i) + j] = ("b", a[1], i, j)
                    return out
            raise Unknown("call %s" % n)
        raise Unknown("expression %s" % show(e0)[:60])

    def run(self):
        f = self.f
        # walk the CFG from the entry; branch conditions must be decidable from constants and fixed-count loop counters
        # (constant propagation: a loop `for (i = 0; i < 6; i++)` is followed iteration by iteration)
        bid, steps = f.entry, 0
        while bid is not None and steps < 4000:
            steps += 1
            blk = f.blocks[bid]
            self._block(blk)
            succs = [(s_, pol) for (s_, pol) in f.succ_edges(bid) if s_ is not None]
            if not succs:
                break
            if len(succs) == 1 or blk.cond is None:
                bid = succs[0][0]
                continue
            v = self.cond(blk.cond)
            if v is None:
                self.partial = "branch on `%s`" % show(blk.cond)[:40]     # data-dependent control flow: what was stored so far stands
                break
            nxt = [s_ for (s_, pol) in succs if pol == v]
            bid = nxt[0] if nxt else None
        if steps >= 4000:
            raise Unknown("no end of the walk")
        return self.out

    def _block(self, blk):
        if True:
            for el in blk.elems:
                if not el.top:
                    continue
                e = el.e
                k = kind(e)
                if k == "incdec" and kind(strip(e[3])) == "var" and strip(e[3])[1] in self.ints:
                    self.ints[strip(e[3])[1]] += 1 if e[1] == "++" else -1
                    continue
                if k == "assign" and kind(strip(e[2])) == "var" and self.ival(e[3]) is not None and e[1] in ("=", "+=", "-="):
                    v_ = strip(e[2])[1]
                    if e[1] == "=":
                        self.ints[v_] = self.ival(e[3])
                        self.env.pop(v_, None)
                        continue
                    if v_ in self.ints:
                        self.ints[v_] += self.ival(e[3]) if e[1] == "+=" else -self.ival(e[3])
                        continue
                if k == "assign":
                    try:
                        key, width = self.lhs_key(e[2])
                    except Unknown:
                        continue          # a store to something that is not a limb / byte of the output (`*overflow = over`)
                    try:
                        v = self.ev(e[3])
                    except Unknown:
                        if key[0] == "var":
                            self.env.pop(key[1], None)      # a scratch variable computed from something else (`over = reduce(..)`)
                            continue
                        raise
                    if e[1] == "|=":
                        old = self.out.get(key, {}) if key[0] != "var" else self.env.get(key[1], {})
                        for p, x in old.items():
                            if p in v and v[p] != x:
                                raise Unknown("overlap in |=")
                            v[p] = x
                    elif e[1] != "=":
                        raise Unknown("assignment operator %s" % e[1])
                    v = {p: b for p, b in v.items() if p < width}
                    if key[0] == "var":
                        self.env[key[1]] = v
                    else:
                        self.out[key] = v
                elif k == "decls":
                    for d in e[1:]:
                        if d[2] is not None:
                            if self.ival(d[2]) is not None:
                                self.ints[d[1]] = self.ival(d[2])
                            else:
                                try:
                                    self.env[d[1]] = self.ev(d[2])
                                except Unknown:
                                    self.env.pop(d[1], None)
                elif k == "call" and callee_name(e) in ("secp256k1_write_be32", "secp256k1_write_be64"):
                    nb = 4 if callee_name(e).endswith("32") else 8
                    a = strip(e[3][0])
                    base, nm = 0, None
                    if kind(a) == "addr" and kind(strip(a[1])) == "index" and is_int(strip(a[1])[2]) and kind(strip(strip(a[1])[1])) == "var":
                        base, nm = int_val(strip(a[1])[2]), strip(strip(a[1])[1])[1]
                    elif kind(a) == "var":
                        nm = a[1]
                    if nm is None:
                        raise Unknown("write_be target")
                    v = self.ev(e[3][1])
                    for i in range(nb):
                        self.out[("bytes", nm, base + i)] = {j: v[8 * (nb - 1 - i) + j] for j in range(8) if 8 * (nb - 1 - i) + j in v}
                # everything else (VERIFY helpers, void calls) has no effect on the packing


def _layout(prog):
    """Limb / word counts and widths from the struct layouts of this configuration."""
    def arr(struct, field):
        st = prog.structs.get(struct) or prog.structs.get("struct " + struct) or {}
        fl = next((x for x in st.get("fields", []) if x["name"] == field), None)
        if not fl:
            raise AnalysisBroken("R-PACK: struct %s has no field %s" % (struct, field))
        n = fl.get("array_n") or 0
        return n, (fl["bytes"] // n) * 8 if n else 0
    fn, fw = arr("secp256k1_fe", "n")
    sn, sw = arr("secp256k1_scalar", "d")
    tn, tw = arr("secp256k1_fe_storage", "n")
    W = {5: 52, 10: 26}.get(fn)
    if W is None:
        raise AnalysisBroken("R-PACK: unknown field representation n[%d]" % fn)
    return {"fe_n": fn, "fe_word": fw, "W": W, "sc_n": sn, "sc_w": sw, "st_n": tn, "st_w": tw}


def obligations(prog):
    L = _layout(prog)
    W, fn = L["W"], L["fe_n"]
    obs = []
    undecided = []

    def fe_valid(k):
        return min(W, 256 - W * k)

    def full(width):
        return lambda k: width

    def byte_sym(name, p):
        return ("b", name, 31 - p // 8, p % 8)

    def check(fname, inputs, expect, what, props, n_out):
        f = prog.functions.get(fname)
        if f is None or not f.blocks:
            raise AnalysisBroken("R-PACK: function %s vanished" % fname)
        try:
            pk = Packer(prog, f, inputs)
            out = pk.run()
        except Unknown as ex:
            # a shape the bit evaluator cannot follow is *not decided*, never an alarm; the count of decided functions is floored
            undecided.append(fname)
            obs.append(Obligation("R-PACK", "R-PACK:%s" % fname, f.loc, fname, what, True,
                                  "NOT DECIDED: the function is no longer a bit shuffle the evaluator can follow (%s)" % ex, props=props))
            return
        bad = []
        seen = 0
        for key, want in expect.items():
            got = out.get(key, {})
            seen += 1
            got = {p: b for p, b in got.items() if b != 0}
            if got != want:
                diff = sorted(set(got.items()) ^ set(want.items()), key=repr)[:3]
                bad.append("%s[%d]: %s" % (key[1], key[2], ", ".join("bit %d is %s" % (p, b if (p, b) in got.items() else "missing (should be %s)" % (b,)) for p, b in diff)))
        ok = not bad and seen == n_out
        if not ok and pk.partial and all("missing" in b_ for b_ in bad) and not any("conflict" in b_ for b_ in bad):
            undecided.append(fname)
            obs.append(Obligation("R-PACK", "R-PACK:%s" % fname, f.loc, fname, what, True,
                                  "NOT DECIDED: the walk stopped at a data-dependent %s before all outputs were stored" % pk.partial, props=props))
            return
        obs.append(Obligation("R-PACK", "R-PACK:%s" % fname, f.loc, fname, what, ok,
                              ("all %d output words / bytes carry exactly the bits the layout defines" % seen) if ok else "; ".join(bad[:3]), props=props))

    kern = {"C05", "C03", "C02"}
    # bytes -> field limbs
    exp = {}
    for k in range(fn):
        exp[("limbs", "r->n", k)] = {b: byte_sym("a", W * k + b) for b in range(fe_valid(k))}
    check("secp256k1_fe_set_b32_mod", {("bytes", "a"): None}, exp,
          "secp256k1_fe_set_b32_mod packs the 32 big-endian bytes into %d limbs of %d bits" % (fn, W), kern, fn)
    # field limbs -> bytes
    exp = {}
    for i in range(32):
        exp[("bytes", "r", i)] = {j: ("l", "a", "n", (8 * (31 - i) + j) // W, (8 * (31 - i) + j) % W) for j in range(8)}
    check("secp256k1_fe_get_b32", {("limbs", "a", "n"): fe_valid}, exp,
          "secp256k1_fe_get_b32 unpacks %d normalized limbs of %d bits into 32 big-endian bytes" % (fn, W), kern, 32)
    # limbs <-> storage words
    S, tn = L["st_w"], L["st_n"]
    exp = {}
    for k in range(tn):
        exp[("limbs", "r->n", k)] = {b: ("l", "a", "n", (S * k + b) // W, (S * k + b) % W) for b in range(S)}
    check("secp256k1_fe_to_storage", {("limbs", "a", "n"): fe_valid}, exp,
          "secp256k1_fe_to_storage packs %d limbs of %d bits into %d words of %d bits" % (fn, W, tn, S), {"C05"}, tn)
    exp = {}
    for k in range(fn):
        exp[("limbs", "r->n", k)] = {b: ("l", "a", "n", (W * k + b) // S, (W * k + b) % S) for b in range(fe_valid(k))}
    check("secp256k1_fe_from_storage", {("limbs", "a", "n"): full(S)}, exp,
          "secp256k1_fe_from_storage unpacks %d words of %d bits into %d limbs of %d bits" % (tn, S, fn, W), {"C05"}, fn)
    # scalars
    sw, sn = L["sc_w"], L["sc_n"]
    exp = {}
    for k in range(sn):
        exp[("limbs", "r->d", k)] = {b: byte_sym("b32", sw * k + b) for b in range(sw)}
    check("secp256k1_scalar_set_b32", {("bytes", "b32"): None}, exp,
          "secp256k1_scalar_set_b32 reads the 32 big-endian bytes into %d words of %d bits" % (sn, sw), kern | {"C01", "C04"}, sn)
    exp = {}
    for i in range(32):
        exp[("bytes", "bin", i)] = {j: ("l", "a", "d", (8 * (31 - i) + j) // sw, (8 * (31 - i) + j) % sw) for j in range(8)}
    check("secp256k1_scalar_get_b32", {("limbs", "a", "d"): full(sw)}, exp,
          "secp256k1_scalar_get_b32 writes %d words of %d bits as 32 big-endian bytes" % (sn, sw), kern | {"C01", "C04"}, 32)
    # the big-endian helpers themselves
    for nb in (4, 8):
        fname = "secp256k1_read_be%d" % (nb * 8)
        f = prog.functions.get(fname)
        if f is not None and f.blocks:
            try:
                pk = Packer(prog, f, {("bytes", "p"): None})
                pk.run()
                rets = [el for el in f.returns()]
                v = pk.ev(rets[0].e[1]) if rets else {}
                want = {8 * (nb - 1 - i) + j: ("b", "p", i, j) for i in range(nb) for j in range(8)}
                obs.append(Obligation("R-PACK", "R-PACK:%s" % fname, f.loc, fname, "%s reads %d bytes big-endian" % (fname, nb), v == want,
                                      "all %d bits in place" % (8 * nb) if v == want else "bit layout differs", props={"C05"}))
            except Unknown as ex:
                obs.append(Obligation("R-PACK", "R-PACK:%s" % fname, f.loc, fname, "%s reads %d bytes big-endian" % (fname, nb), False, str(ex), props={"C05"}))
    if len(obs) < 7:
        raise AnalysisBroken("R-PACK: only %d packing functions analysed" % len(obs))
    if len(undecided) > 2:
        raise AnalysisBroken("R-PACK: %d of %d packing functions can no longer be decided (%s)" % (len(undecided), len(obs), ", ".join(undecided)))
    return obs, {"functions": len(obs), "not_decided": undecided, "representation": "%dx%d field, %dx%d scalar" % (fn, W, sn, sw)}


if __name__ == "__main__":
    import sys
    for cfg in (sys.argv[1:] or ["K0", "K3"]):
        obs, st = obligations(program(cfg))
        print(cfg, st)
        for o in obs:
            print("  OK  " if o.ok else "  VIOL", o.oid, "|", o.detail[:200])
