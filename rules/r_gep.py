"""R-GEP — "is this field element >= p" predicates (C05; C03 / C08 / C02 through the parsers that reject x >= p).

secp256k1_fe_set_b32_limit returns whether the decoded value is below p, and every full normalisation decides with the same
kind of expression whether one more subtraction of p is due.  The expressions touch the limbs only through comparisons with
constants, through `(l_i & l_j & ..) == all-ones` and through one carry-propagating form `l_1 + c_1 + ((l_0 + c_0) >> B) > max`;
such a predicate is constant on every box of the grid that the comparison constants cut out of the limb ranges (a weighted
threshold `l_1 2^B + l_0 >= T` is the lexicographic comparison with the digits of T).  So it is decided by evaluating the
expression tree on one representative per box: for each limb the values 0, max and c-1, c, c+1 for every constant c the limb
is compared with — the digits of p included — and comparing with the definition `sum l_k 2^(B k) >= p`.  A disagreement is a
concrete limb vector, reported as such; agreement on the grid is a proof when every leaf is of a recognised kind, and
reported as NOT DECIDED otherwise.

`m = n[3] & n[2]` for `n[3] & n[2] & n[1]` (a valid x rejected), a component-wise `(t1 >= P1) & (t0 >= P0)` for the
lexicographic test (values >= p left unreduced) are reported with the limb vector that shows it.
"""
import itertools
from sxlib import *
from core import Obligation
from r_hash import ceval, _NotConst

P = 2 ** 256 - 2 ** 32 - 977

# (function, what the predicate must equal, properties)
SITES = [
    ("secp256k1_fe_set_b32_limit", "return", {"C05", "C03", "C02", "C08"}),
    ("secp256k1_fe_normalize", "flag", {"C05"}),
    ("secp256k1_fe_normalize_var", "flag", {"C05"}),
]


def _layout(prog):
    st = prog.structs.get("secp256k1_fe")
    n = next(x for x in st["fields"] if x["name"] == "n")["array_n"]
    return (52, 5) if n == 5 else (26, 10)


def _limb_of(e, names):
    """Index of the limb an expression denotes: r->n[k] or a local that stands for limb k."""
    e = strip(e)
    if kind(e) == "index" and kind(strip(e[1])) in ("decay", "member") and int_val(e[2]) is not None and ".n" in show(e) or "->n" in show(e):
        if kind(e) == "index" and int_val(e[2]) is not None:
            return int_val(e[2])
    if kind(e) == "var" and e[1] in names:
        return names[e[1]]
    return None


def _collect(e, names, consts, kinds_seen):
    """Constants each limb is compared with; classifies the leaves."""
    e = strip(e)
    k = kind(e)
    if k == "un" and e[1] == "!":
        return _collect(e[2], names, consts, kinds_seen)
    if k == "bin" and e[1] in ("&", "|", "&&", "||", "^"):
        # boolean connective of 0/1 values — or an AND-chain of limbs handled at the comparison above it
        _collect(e[2], names, consts, kinds_seen)
        _collect(e[3], names, consts, kinds_seen)
        return
    if k == "bin" and e[1] in ("<", ">", "<=", ">=", "==", "!="):
        for (a, b) in ((e[2], e[3]), (e[3], e[2])):
            c = int_val(b)
            if c is None:
                continue
            a = strip(a)
            li = _limb_of(a, names)
            if li is not None:
                consts.setdefault(li, set()).add(c)
                kinds_seen.add("limb-vs-const")
                return
            # AND-chain of limbs compared with all-ones
            leaves = []

            def chain(x):
                x = strip(x)
                if kind(x) == "bin" and x[1] == "&":
                    chain(x[2])
                    chain(x[3])
                else:
                    leaves.append(_limb_of(x, names))
            chain(a)
            if len(leaves) > 1 and all(l is not None for l in leaves) and c & (c + 1) == 0:
                for l in leaves:
                    consts.setdefault(l, set()).add(c)
                kinds_seen.add("and-chain")
                return
            # shift of the top limb: (t >> s) compared or used as a flag
            if kind(a) == "bin" and a[1] == ">>" and _limb_of(a[2], names) is not None and int_val(a[3]) is not None:
                consts.setdefault(_limb_of(a[2], names), set()).add(c << int_val(a[3]))
                kinds_seen.add("shifted-limb")
                return
            # carry form  l1 + c1 + ((l0 + c0) >> B) > max
            limbs = sorted({_limb_of(x, names) for x in walk(a) if _limb_of(x, names) is not None})
            if len(limbs) == 2 and all(kind(x) != "bin" or x[1] in ("+", ">>") for x in walk(a)):
                kinds_seen.add("carry-form")
                for l in limbs:
                    consts.setdefault(l, set())
                return
        kinds_seen.add("unknown:" + show(e)[:50])
        return
    if k == "bin" and e[1] == ">>" and _limb_of(e[2], names) is not None and int_val(e[3]) is not None:
        consts.setdefault(_limb_of(e[2], names), set()).add(1 << int_val(e[3]))
        kinds_seen.add("shifted-limb")
        return
    if k in ("int",):
        return
    li = _limb_of(e, names)
    if li is not None:
        kinds_seen.add("unknown:bare limb")
        return
    kinds_seen.add("unknown:" + show(e)[:50])


def _compile(e, keys):
    """Python source of an integer expression tree; limb occurrences become L[k]."""
    k = kind(e)
    if k == "narrow":
        return "((%s) & %d)" % (_compile(e[3], keys), (1 << e[2]) - 1)
    if k == "bool":
        return "int(bool(%s))" % _compile(e[1], keys)
    if k == "int":
        return str(int(e[1]))
    sk = show(e)
    if sk in keys:
        return "L[%d]" % keys[sk]
    if k == "un":
        bits = e[3] if len(e) > 4 and e[3] else 32
        x = _compile(e[2], keys)
        if e[1] == "!":
            return "int(not (%s))" % x
        if e[1] == "~":
            return "(~(%s) & %d)" % (x, (1 << bits) - 1)
        if e[1] == "-":
            return "(-(%s) & %d)" % (x, (1 << bits) - 1)
    if k == "bin":
        a, b = _compile(e[2], keys), _compile(e[3], keys)
        op = e[1]
        bits = e[4] if len(e) > 5 and e[4] else 64
        signed = bool(e[5]) if len(e) > 5 else False
        if op in ("<", ">", "<=", ">=", "==", "!="):
            return "int((%s) %s (%s))" % (a, op, b)
        if op == "&&":
            return "int(bool(%s) and bool(%s))" % (a, b)
        if op == "||":
            return "int(bool(%s) or bool(%s))" % (a, b)
        if op in ("+", "-", "*", "&", "|", "^", "<<", ">>") and not signed:
            return "(((%s) %s (%s)) & %d)" % (a, op, b, (1 << bits) - 1)
        if op in ("&", "|", "^", ">>", "+", "*") and signed:
            return "((%s) %s (%s))" % (a, op, b)     # operands here are 0/1 flags or small: no overflow
    raise _NotConst("expression %s" % show(e)[:40])


def _names_for(f, B, n):
    """Locals that stand for limbs: `t3 = r->n[3]` initialisations (the first pass rewrites them but keeps their role)."""
    names = {}
    for el in f.elems():
        e = el.e
        if kind(e) == "decls":
            for d in e[1:]:
                if d[2] is not None:
                    x = strip(d[2])
                    if kind(x) == "index" and int_val(x[2]) is not None and ("->n" in show(x) or ".n" in show(x)):
                        names[d[1]] = int_val(x[2])
    return names


def _and_accumulators(f, names):
    """Locals built as `m = t_a; m &= t_b; ...` over limb variables: variable -> AND-chain expression of those limbs."""
    parts = {}
    for el in f.elems():
        e = el.e
        if kind(e) == "assign" and kind(strip(e[2])) == "var" and kind(strip(e[3])) == "var" and strip(e[3])[1] in names:
            v = strip(e[2])[1]
            if e[1] == "=":
                parts[v] = [strip(e[3])]
            elif e[1] == "&=" and v in parts:
                parts[v].append(strip(e[3]))
            elif v in parts:
                del parts[v]
    out = {}
    for v, xs in parts.items():
        if v in names:
            continue
        ex = xs[0]
        for x in xs[1:]:
            ex = ["bin", "&", ex, x, 64, 0]
        out[v] = ex
    return out


def _subst(e, m):
    if not isinstance(e, list):
        return e
    if kind(e) == "var" and e[1] in m:
        return m[e[1]]
    return [_subst(x, m) if isinstance(x, list) else x for x in e]


def _find_pred(f, what, names):
    if what == "return":
        from r_hash import _single_defs
        rets = [el for el in f.elems() if kind(el.e) == "return" and el.e[1] is not None]
        if not rets:
            return None, None
        e = rets[-1].e[1]
        defs = {k: v for k, v in _single_defs(f).items() if k not in f.param_index}
        for _ in range(6):          # locals with one definition stand for their definition
            e2 = _subst(e, defs)
            if e2 == e:
                break
            e = e2
        return e, rets[-1].loc
    best = None
    acc = _and_accumulators(f, names)
    for el in f.elems():
        e = el.e
        if kind(e) == "assign" and e[1] == "=" and kind(strip(e[2])) == "var":
            rhs = _subst(e[3], acc)
            cmp_n = sum(1 for x in walk(rhs) if kind(x) == "bin" and x[1] in ("==", ">", ">=", "<", "<="))
            limbs = {_limb_of(x, names) for x in walk(rhs)} - {None}
            if cmp_n >= 2 and len(limbs) >= 3:
                best = (rhs, el.loc)
    return best or (None, None)


def obligations(prog, tag=""):
    B, n = _layout(prog)
    M = (1 << B) - 1
    top_bits = 256 - B * (n - 1)
    pd = [(P >> (B * k)) & M for k in range(n)]
    obs = []
    for (fname, what, props) in SITES:
        f = prog.fn(fname)
        names = _names_for(f, B, n) if what == "flag" else {}
        pred, loc = _find_pred(f, what, names)
        oid = "R-GEP:%s" % fname
        text = ("%s returns 1 exactly for values below p" % fname) if what == "return" else \
            ("the final-reduction flag of %s is set exactly when the value after the first pass is >= p" % fname)
        if pred is None:
            obs.append(Obligation("R-GEP", oid, f.loc, fname, text, True, "NOT DECIDED: predicate expression not found", props=props))
            continue
        consts, kinds_seen = {}, set()
        _collect(pred, names, consts, kinds_seen)
        # ranges: normalised limbs for set_b32_limit; after the first pass the top limb may carry one extra bit
        hi = [M] * (n - 1) + [(1 << top_bits) - 1 if what == "return" else (1 << (top_bits + 1)) - 1]
        reps = []
        for k in range(n):
            cs = set(consts.get(k, ())) | {pd[k]}
            r = {0, hi[k]}
            for c in cs:
                r |= {c - 1, c, c + 1}
            reps.append(sorted(v for v in r if 0 <= v <= hi[k]))
        size = 1
        for r in reps:
            size *= len(r)
        if size > 3000000:
            # the middle limbs only ever meet `== all-ones`: collapse limbs with identical representative sets to vary jointly
            pass
        keyfmt = None
        # memory keys the expression uses for the limbs
        keys = {}
        for x in walk(pred):
            li = _limb_of(x, names)
            if li is not None:
                keys[show(x)] = li
        bad = None
        count = 0
        try:
            fn = eval("lambda L: " + _compile(pred, keys))
            # cross-check the compiled form against the tree evaluator on a sample of the grid
            for i, vec in enumerate(itertools.product(*reps)):
                if i % 997 == 0 and bool(fn(vec)) != bool(ceval(pred, {k_: vec[li] for k_, li in keys.items()}, {})):
                    raise AnalysisBroken("R-GEP: compiled predicate and tree evaluation disagree")
            sh = [B * k for k in range(n)]
            for vec in itertools.product(*reps):
                count += 1
                v = bool(fn(vec))
                X = 0
                for k in range(n):
                    X |= vec[k] << sh[k]
                if what != "return" or True:
                    X = sum(vec[k] << sh[k] for k in range(n))
                ge = X >= P
                want = (not ge) if what == "return" else ge
                if v != want:
                    bad = (vec, v, X)
                    break
        except _NotConst as ex:
            obs.append(Obligation("R-GEP", oid, loc, fname, text, True, "NOT DECIDED: %s" % ex, props=props))
            continue
        unknown = sorted(k_ for k_ in kinds_seen if k_.startswith("unknown"))
        if bad:
            vec, v, X = bad
            det = "for limbs (%s) — value 0x%x, %s p — `%s` is %d" % (", ".join("0x%x" % x for x in vec), X, ">=" if X >= P else "<", show(pred)[:90], v)
            obs.append(Obligation("R-GEP", oid, loc, fname, text, False, det, props=props))
        elif unknown:
            obs.append(Obligation("R-GEP", oid, loc, fname, text, True,
                                  "NOT DECIDED: agrees with the definition on %d grid points, but a leaf is of no recognised kind (%s)" % (count, unknown[0]), props=props))
        else:
            obs.append(Obligation("R-GEP", oid, loc, fname, text, True,
                                  "`%s` agrees with sum l_k 2^(%d k) %s p on all %d boxes cut out by its comparison constants and the digits of p (leaves: %s)"
                                  % (show(pred)[:70], B, "<" if what == "return" else ">=", count, ", ".join(sorted(kinds_seen))), props=props))
    return obs, {"predicates": len(obs)}


if __name__ == "__main__":
    import sys
    for o in obligations(program(sys.argv[1] if len(sys.argv) > 1 else "K0"))[0]:
        print("OK  " if o.ok else "FAIL", o.oid, "|", o.detail[:300])
