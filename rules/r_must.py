"""R-MUST — must-pass-through on accepting paths (the classic "every path to a success return passes through X").

For every exported function F the rule computes M(F): what is executed on EVERY path to EVERY accepting return of F:
  * the *families* of primitives (group multiplication, hash absorption / finalisation, object save / load, equality,
    infinity / zero tests, scalar and group arithmetic, decoding, serialisation, parity, sort, checkpoint restore), and
  * the *shared helpers* by name: library functions of the module / key / signature layer that have at least two
    distinct callers on the reviewed tree (secp256k1_pedersen_ecmult, secp256k1_borromean_verify, ...; single-use
    helpers are left out because inlining one is a plausible behaviour-preserving edit; `_var` variants are folded).

"Executed" is decided by a forward dataflow over clang's CFG whose state is partitioned by what is known about verdict
variables and pointer parameters (Z = known 0 / NULL, NZ = known non-zero / non-NULL), so that
`ret = ret && helper(); ...; return ret;` counts helper() on the accepting path, and `if (nonce) { rewind... }` counts
the rewind block for the caller that passes a checked, non-NULL nonce.  It is interprocedural through must summaries:
a call to g contributes M(g | null-ness of the arguments), computed the same way (void g: over all returns).

tables/must_pass.json freezes M(F) as it is on the reviewed tree.  An entry that was on every accepting path and is
not any more means somebody added an accepting shortcut (`if (tweak is zero) return 1;`) or moved the operation under
a condition: reported at the accepting return that now lacks it.
"""
import re

from sxlib import *
from core import Obligation, load_table

FAMILIES = [
    ("group-mult", re.compile(r"ecmult")),
    ("hash-final", re.compile(r"sha256_finalize$|rfc6979_hmac_sha256_generate$")),
    ("hash-absorb", re.compile(r"sha256_write$")),
    ("save", re.compile(r"_save$")),
    ("load", re.compile(r"_load$|_load_")),
    ("equality", re.compile(r"memcmp_var$|_fe_equal$|_scalar_eq$|_gej_eq_|_ge_eq_|_gej_eq_x_var$")),
    ("infinity-test", re.compile(r"_is_infinity$")),
    ("zero-test", re.compile(r"scalar_is_zero$|is_zero_array$")),
    ("scalar-arith", re.compile(r"_scalar_(add|mul|negate|inverse|inverse_var|cond_negate)$")),
    ("group-add", re.compile(r"_gej_add_|_gej_neg$|_ge_neg$|_gej_double")),
    ("decode", re.compile(r"_scalar_set_b32|_fe_set_b32_|_eckey_pubkey_parse$|_ge_set_xo_var$|_ge_set_xquad$")),
    ("encode", re.compile(r"_scalar_get_b32$|_fe_get_b32$|_eckey_pubkey_serialize")),
    ("parity", re.compile(r"_fe_is_odd$|_ge_even_y$|_fe_is_square_var$")),
    ("sort", re.compile(r"_hsort$")),
    ("checkpoint-restore", re.compile(r"scratch_apply_checkpoint$")),
]

# files whose functions can be name-level entries (module / key / signature layer; not the field / scalar / group kernels)
NAME_FILES = ("src/modules/", "src/eckey_impl.h", "src/ecdsa_impl.h", "src/eccommit_impl.h", "src/secp256k1.c", "src/hsort_impl.h")


UTILITY = re.compile(r"context_is_|declassify|get_hash_context|_clear$|memclear|memczero|callback|_cmov$|is_zero_array|_count_bits|read_be|write_be")


# not predicate entries: housekeeping, and the byte decoders (`set_b32_seckey` and `set_b32` + zero test are interchangeable;
# which decoder consumes which input bytes is R-OBL's business, with its own equivalences)
CHK_SKIP = re.compile(r"context_is_|declassify|callback|^mem|sha256|_set_b32")
# internal entry points that a property observes although they are not exported (the BP++ norm argument is reached only
# through the tests in this fork)
EXTRA_ROOTS = ("secp256k1_bppp_rangeproof_norm_product_verify", "secp256k1_bppp_rangeproof_norm_product_prove", "secp256k1_bppp_commit")


def families_of_name(n):
    return {fam for fam, rx in FAMILIES if rx.search(n)}


def fold_variant(n):
    return re.sub(r"_var$", "", n)


class Must:
    def __init__(self, prog, frozen_names=()):
        self.prog = prog
        self.frozen_names = set(frozen_names)     # helpers named in the frozen table stay entries even if they now have one caller
        self.memo = {}
        self.per_return = {}
        callers = {}
        for fn, cs in prog.callgraph().items():
            for c in cs:
                callers.setdefault(c, set()).add(fn)
        self.shared = set()
        for n, f in prog.functions.items():
            if UTILITY.search(n):
                continue        # housekeeping (taint markers, context accessors, wiping): adding / dropping one is not a behaviour change
            if f.blocks and any(f.file.startswith(p) for p in NAME_FILES) and len(callers.get(n, ())) >= 2 and not (f.external and n in prog.protos):
                self.shared.add(n)

    def own(self, n):
        s = set(families_of_name(n))
        if n in self.shared or fold_variant(n) in self.frozen_names:
            s.add("fn:" + fold_variant(n))
        return s

    # ---- zero-ness of an expression under a partition
    def zero(self, e, Z, zx):
        e = strip(e)
        k = kind(e)
        if k == "int":
            return is_int(e, 0)
        if k == "var":
            return e[1] in Z
        if repr(e) in zx:
            return True
        if k == "bin" and e[1] in ("&&", "&", "*"):
            return self.zero(e[2], Z, zx) or self.zero(e[3], Z, zx)
        return False

    def nonzero(self, e, NZ):
        e = strip(e)
        k = kind(e)
        if k == "int":
            return not is_int(e, 0)
        if k == "var":
            return e[1] in NZ
        if k in ("addr", "decay", "str"):
            return True
        return False

    @staticmethod
    def param_root(f, a):
        """Index of the parameter of f that argument a is (rooted in), else None."""
        r = lvalue_root(a)
        if r is None:
            r = strip(a)
        for _ in range(3):
            if kind(r) != "var":
                return None
            if r[1] in f.param_index:
                return f.param_index[r[1]]
            # a local with a single definition that is just (an lvalue of) a parameter stands for it: `h_len = c_vec_len`
            dm = getattr(f, "_must_defs", None)
            if dm is None:
                dm = {}
                for el in f.elems():
                    for (n, op, rhs, via) in defs_in_elem(el.e):
                        dm.setdefault(n, []).append(rhs)
                f._must_defs = dm
            ds = dm.get(r[1], [])
            if len(ds) != 1 or ds[0] is None:
                return None
            r2 = lvalue_root(ds[0])
            r = r2 if r2 is not None else strip(ds[0])
        return None

    def arg_ctx(self, args, Z, zx, NZ, nparams):
        ctx = []
        for i in range(nparams):
            if i >= len(args):
                ctx.append("?")
            elif self.zero(args[i], Z, zx):
                ctx.append("Z")
            elif self.nonzero(args[i], NZ):
                ctx.append("N")
            else:
                ctx.append("?")
        return tuple(ctx)

    def must(self, fname, ctx=None, depth=0):
        f = self.prog.functions.get(fname)
        own = frozenset(self.own(fname))
        if f is None or not f.blocks or depth > 14:
            return own
        if ctx is None:
            ctx = tuple("?" for _ in f.params)
        # only pointer parameters carry a context (ints: '?'), to keep the number of contexts small
        ctx = tuple(c if (i < len(f.params) and f.params[i].get("ptr")) else "?" for i, c in enumerate(ctx))
        key = (fname, ctx)
        if key in self.memo:
            return self.memo[key]
        self.memo[key] = own                 # cycle guard
        callfam = {}

        def fam_of_call(c, Z, zx, NZ):
            n = callee_name(c)
            g = self.prog.functions.get(n)
            if g is None or not g.blocks or n == fname:
                return frozenset(self.own(n))
            actx = self.arg_ctx(c[3], Z, zx, NZ, len(g.params))
            k2 = (n, actx)
            if k2 not in callfam:
                callfam[k2] = self.must(n, actx, depth + 1)
            res = callfam[k2]
            if any(x.startswith("chk:") for x in res):
                # predicate entries name the callee's parameters: translate through this call's arguments
                out = set()
                for x in res:
                    mm = re.match(r"chk:(\w+)\(p(\d+)\)$", x)
                    if not mm:
                        out.add(x)
                        continue
                    k = int(mm.group(2))
                    j = self.param_root(f, c[3][k]) if k < len(c[3]) else None
                    if j is not None:
                        out.add("chk:%s(p%d)" % (mm.group(1), j))
                res = frozenset(out)
            return res

        states = {}          # (block, Z, zx, NZ) -> must set at block entry
        work = []

        def push(bid, Z, zx, NZ, m):
            k3 = (bid, Z, zx, NZ)
            old = states.get(k3)
            new = m if old is None else (old & m)
            if old is None or new != old:
                states[k3] = new
                work.append(k3)

        Z0 = frozenset(p["name"] for p, c in zip(f.params, ctx) if c == "Z")
        N0 = frozenset(p["name"] for p, c in zip(f.params, ctx) if c == "N")
        push(f.entry, Z0, frozenset(), N0, frozenset())
        acc = {}             # return element loc -> (element, must set)
        fall = []            # must sets at fall-off-the-end exits
        while work:
            k3 = work.pop()
            bid, Z, zx, NZ = k3
            m = set(states[k3])
            Z, zx, NZ = set(Z), set(zx), set(NZ)
            b = f.blocks[bid]
            returned = False
            cond_calls = {id(x) for x in calls_in(b.cond)} if b.cond is not None else set()
            cond_call_keys = {(callee_name(x), x[2]) for x in calls_in(b.cond)} if b.cond is not None else set()
            for el in b.elems:
                if el.top and kind(el.e) == "return" and el.e[1] is not None:
                    # `return pred(..);` — the predicate is the verdict itself (what an extracted helper turns a test into)
                    cond_call_keys |= {(callee_name(x), x[2]) for x in calls_in(el.e[1])}
                elif el.top:
                    # `ret = pred(..)`, `ret &= pred(..)`: the verdict variable idiom
                    for (v_, op_, rhs_, via_) in defs_in_elem(el.e):
                        if via_ in ("assign", "decl") and rhs_ is not None and f.vars.get(v_, {}).get("int_bits"):
                            cond_call_keys |= {(callee_name(x), x[2]) for x in calls_in(rhs_)}
            for el in b.elems:
                e = strip(el.e)
                k = kind(e)
                if k == "call" and callee_name(e):
                    m |= fam_of_call(e, Z, zx, NZ)
                    if (callee_name(e), e[2]) in cond_call_keys and not CHK_SKIP.search(callee_name(e)):
                        # a predicate evaluated as (part of) a branch condition, on something rooted in a parameter:
                        # `if (!is_power_of_two(g_len) || !is_power_of_two(h_len))` yields one entry per tested parameter
                        for a in e[3]:
                            j = self.param_root(f, a)
                            if j is not None and not (j < len(f.params) and any(t in f.params[j]["type"] for t in ("context", "hash_ctx", "callback"))):
                                m.add("chk:%s(p%d)" % (fold_variant(callee_name(e)), j))
                if k == "bin" and e[1] in ("&&", "&") and self.zero(e, Z, zx):
                    zx.add(repr(e))
                if not el.top:
                    continue
                if kind(el.e) == "return":
                    returned = True
                    r = el.e[1]
                    if "ARG_CHECK" in el.macros or "ARG_CHECK_VOID" in el.macros:
                        break
                    if r is not None and self.zero(r, Z, zx):
                        break
                    old = acc.get(el.loc)
                    acc[el.loc] = (el, frozenset(m) if old is None else (old[1] & frozenset(m)))
                    break
                for (v, op, rhs, via) in defs_in_elem(el.e):
                    # small integer constants (loop counters): carried in NZ as "name=K" so that `for (i = 0; i < 2; i++)`
                    # is unrolled by the partitioning and its body counts as executed
                    kc = [x for x in NZ if x.startswith(v + "=")]
                    for x in kc:
                        NZ.discard(x)
                    if via in ("assign", "decl") and op == "=" and rhs is not None and is_int(rhs) and 0 <= int_val(rhs) <= 2:
                        NZ.add("%s=%d" % (v, int_val(rhs)))
                    elif via == "incdec" and kc:
                        d_ = 0
                        for x in walk(el.e):
                            if kind(x) == "incdec" and kind(strip(x[3])) == "var" and strip(x[3])[1] == v:
                                d_ = 1 if x[1] == "++" else -1
                        nk = int(kc[0].split("=")[1]) + d_
                        if d_ and 0 <= nk <= 2:             # enough for the two-nonce loops; larger bounds are not unrolled
                            NZ.add("%s=%d" % (v, nk))
                            (Z.add if nk == 0 else Z.discard)(v)
                            (NZ.discard if nk == 0 else NZ.add)(v)
                            continue
                    if via in ("assign", "decl") and op == "=" and rhs is not None and self.zero(rhs, Z, zx):
                        Z.add(v)
                        NZ.discard(v)
                    elif via in ("assign", "decl") and op == "=" and rhs is not None and self.nonzero(rhs, NZ):
                        NZ.add(v)
                        Z.discard(v)
                    elif via == "assign" and op in ("&=", "*=") and (v in Z or (rhs is not None and self.zero(rhs, Z, zx))):
                        Z.add(v)
                        NZ.discard(v)
                    elif via == "assign" and op in ("|=", "+=", "^=", "-=") and v in Z and rhs is not None and self.zero(rhs, Z, zx):
                        pass
                    elif via == "assign" and op in (">>=", "<<=", "/=", "%=") and v in Z:
                        pass
                    else:
                        Z.discard(v)
                        NZ.discard(v)
                if b.cond is None or el.e != b.cond:
                    zx = set()                        # expression facts do not outlive the statement (the branch condition itself reads them)
            if returned or not b.succs:
                continue
            c = b.cond
            edges = f.succ_edges(bid)
            if c is None or not any(pol is not None for _, pol in edges):
                for s_, pol in edges:
                    if s_ is None:
                        continue
                    if not f.blocks[s_].succs and not f.blocks[s_].elems:
                        fall.append(frozenset(m))     # edge into the exit block without a return statement
                    push(s_, frozenset(Z), frozenset(zx), frozenset(NZ), frozenset(m))
                continue
            cs = strip(c)
            neg = False
            while kind(cs) == "un" and cs[1] == "!":
                cs = strip(cs[2])
                neg = not neg
            if kind(cs) == "bin" and cs[1] in ("==", "!=") and (is_int(cs[2], 0) or is_int(cs[3], 0)):
                other = strip(cs[3] if is_int(cs[2], 0) else cs[2])
                if cs[1] == "==":
                    neg = not neg
                cs = other
            is_zero = self.zero(cs, Z, zx)
            is_nz = self.nonzero(cs, NZ)
            known = None
            cw = strip(c)
            if kind(cw) == "bin" and cw[1] == "||" and any(("T:" + repr(strip(x))) in zx for x in (cw[2], cw[3])):
                known = not neg          # `A || B` as written is true when we arrive from the true edge of A; cs is its un-negated core
                if neg:
                    known = None
            if kind(cs) == "bin" and cs[1] in ("<", "<=", ">", ">=", "==", "!="):
                def cv(x):
                    x = strip(x)
                    if is_int(x):
                        return int_val(x)
                    if kind(x) == "var":
                        for y in NZ:
                            if y.startswith(x[1] + "="):
                                return int(y.split("=")[1])
                    return None
                a_, b_ = cv(cs[2]), cv(cs[3])
                if a_ is not None and b_ is not None:
                    known = {"<": a_ < b_, "<=": a_ <= b_, ">": a_ > b_, ">=": a_ >= b_, "==": a_ == b_, "!=": a_ != b_}[cs[1]]
            for s_, pol in edges:
                if s_ is None:
                    continue
                truthy = (pol is True) != neg         # value of the un-negated cs on this edge
                if known is not None and truthy != known:
                    continue
                if truthy and is_zero:
                    continue
                if (not truthy) and is_nz:
                    continue
                Z2, zx2, N2 = set(Z), set(), set(NZ)
                if kind(cs) == "var":
                    if truthy:
                        Z2.discard(cs[1])
                        N2.add(cs[1])
                    else:
                        Z2.add(cs[1])
                        N2.discard(cs[1])
                elif not truthy:
                    zx2.add(repr(cs))
                if pol is False:
                    zx2.add(repr(strip(c)))          # the branch condition as written (negations included) is 0 on its false edge
                elif pol is True and b.term and b.term.get("kind") == "Logical||":
                    zx2.add("T:" + repr(strip(c)))   # ... and the enclosing `||` is decided
                push(s_, frozenset(Z2), frozenset(zx2), frozenset(N2), frozenset(m))
        sets = [mm for (_, mm) in acc.values()] + fall
        res = frozenset(set.intersection(*[set(x) for x in sets])) if sets else frozenset()
        if all(c == "?" for c in ctx):
            self.per_return[fname] = sorted(acc.values(), key=lambda t: t[0].loc)
        self.memo[key] = res | own
        return self.memo[key]


def compute(prog, frozen_names=()):
    mu = Must(prog, frozen_names)
    out = {}
    roots = list(prog.exported()) + [prog.functions[n] for n in EXTRA_ROOTS if n in prog.functions]
    for f in sorted(roots, key=lambda x: x.name):
        if not f.blocks:
            continue
        out[f.name] = sorted(mu.must(f.name))
    return mu, out


def obligations(prog):
    tab = load_table("must_pass.json")
    mu, cur = compute(prog, {x[3:] for k, v in tab.items() if not k.startswith("_") for x in v if x.startswith("fn:")})
    obs = []
    n = 0
    for fname, fams in sorted(tab.items()):
        if fname.startswith("_") or not fams:
            continue
        f = prog.functions.get(fname)
        if f is None:
            continue          # API removed or renamed: the floor decides
        now = set(cur.get(fname, ()))
        n += 1
        # a shared helper that no longer exists under its name (renamed / removed everywhere) is not a lost pass-through
        fams = [x for x in fams if not (x.startswith("fn:") and not any(fold_variant(g) == x[3:] for g in prog.functions))]
        lost = [x for x in fams if x not in now]
        text = ("every path to an accepting return of %s executes: %s (must-pass-through; accept-path dataflow with must summaries of helpers)"
                % (fname, ", ".join(fams)))
        if not lost:
            obs.append(Obligation("R-MUST", "R-MUST:%s" % fname, f.loc, fname, text, True,
                                  "%d accepting return(s); all still pass through the %d frozen entries" % (len(mu.per_return.get(fname, ())), len(fams))))
            continue
        # name the accepting return that lacks the entry
        where, why = f.loc, ""
        for el, s in mu.per_return.get(fname, ()):
            miss = [x for x in lost if x not in s]
            if miss:
                where = el.loc
                why = "the accepting `%s` at %s is reachable without %s" % (show(el.e)[:50], el.loc, ", ".join(miss))
                break
        if not why:
            why = "a helper on the path no longer guarantees %s on all of its own accepting paths" % ", ".join(lost)
        obs.append(Obligation("R-MUST", "R-MUST:%s" % fname, where, fname, text, False,
                              why + " — an accepting shortcut or an operation moved under a condition"))
    return obs, {"functions": n, "shared_helpers": len(mu.shared)}


def regen(prog):
    import json
    import os
    mu, cur = compute(prog)
    cur = {k: v for k, v in cur.items() if v}
    cur["_comment"] = ("R-MUST: families of primitives and shared helpers (fn:<name>) executed on every path to every accepting return of each exported "
                       "function, as computed on the reviewed tree (K0).  Regenerate with `python3 rules/r_must.py regen` after reviewing the diff.")
    with open(os.path.join(VERIF, "tables", "must_pass.json"), "w") as fh:
        json.dump(cur, fh, indent=1, sort_keys=True)
    return cur


if __name__ == "__main__":
    import sys
    prog = program(sys.argv[2] if len(sys.argv) > 2 else "K0")
    if len(sys.argv) > 1 and sys.argv[1] == "regen":
        cur = regen(prog)
        print("frozen", len(cur) - 1, "functions")
    elif len(sys.argv) > 1 and sys.argv[1] == "show":
        mu, cur = compute(prog)
        for k, v in sorted(cur.items()):
            print(k, v)
    else:
        obs, st = obligations(prog)
        print(st)
        for o in obs:
            if not o.ok:
                print("VIOL", o.oid, o.loc, o.detail[:200])
