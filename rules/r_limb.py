"""R-LIMB — the multi-precision kernels compute what they are specified to compute (engine: limbs.py, DESIGN §3.6).

For each kernel below the interpreter derives exact integer forms of the outputs and the rule checks a polynomial identity
against the specification, for all inputs the kernel's contract admits, in the three portable configurations (native
128-bit integers, the 64x64->128 multiply emulated with 32-bit pieces, 32-bit limbs).  The pinned build compiles the
native-int128 field code analysed here but replaces the 4x64 scalar multiply / reduce by x86-64 assembly, which is not
analysable and outside the rule.

  product      sum l[j] W^j = (sum a.d[i] W^i) (sum b.d[j] W^j)                      scalar_mul_512, scalar_sqr_512
  reduce512    at the call of scalar_reduce: sum r.d[k] W^k + 2^256 c = l (mod n), < 2n, and the overflow argument is
               c + scalar_check_overflow(r)                                              scalar_reduce_512
  reduce       sum r'.d[k] W^k = sum r.d[k] W^k + overflow (2^256 - n) (mod 2^256)       scalar_reduce
  add          at the call of scalar_reduce: sum r.d[k] W^k + 2^256 carry = a + b        scalar_add
  fe_product   sum r[k] B^k = (sum a[i] B^i)(sum b[j] B^j) (mod p) for input limbs of magnitude 8, and every output limb
               within the bounds of magnitude 1                                          fe_mul_inner, fe_sqr_inner
  fe_weak      sum r'[k] B^k = sum r[k] B^k (mod p), output within magnitude 1, for input magnitude 31 and (separately:
               finding F4) 32                                                            fe_normalize_weak
  fe_half      2 r' = r (mod p), output magnitude floor(m/2)+1                            fe_half
  fe_negate    r + a = 0 (mod p), no subtraction wraps, output magnitude m+1, for every constant m the callers pass
  fe_mul_int   r' = c r exactly for every constant factor the callers pass; fe_add: r' = r + a exactly
  i128_rshift  (emulated 128-bit integers only) the two words after secp256k1_i128_rshift(x, n) are the two's-complement
               pattern of floor(x / 2^n), sign extension included, for every constant n the callers pass
  scalar_negate / scalar_cond_negate / scalar_half / cmov (scalar, fe, fe_storage)
               the mask-selected results: r = (a == 0 ? 0 : n - a), r' = (r == 0 ? 0 : flag ? n - r : r) (mod 2^256),
               2 r = a + (a & 1) n, every word of r' is flag ? a : r — select masks (-(bit), bit - 1, bit + ~0, ~mask,
               0xFF..F * bit) are tracked as such: x & mask = bit x, x ^ mask = x + bit (2^w - 1 - 2 x)
  get_bits     scalar_get_bits_var(a, offset, count) = floor(a / 2^offset) mod 2^count for all 7696 admitted (offset, count)
  cadd_bit     r' = r + flag 2^bit (mod 2^256) for all 256 bit positions and both flag values
  mul_shift    for each constant shift its callers use: the limbs stored to r are floor(a b / 2^shift) and the rounding
               bit handed to scalar_cadd_bit is bit shift-1 of the product                scalar_mul_shift_var

A violation is either a coefficient of the residual that is not zero (modulo the modulus) on a monomial of input limbs —
the wrong product — or a quotient atom that survives: a carry, a high half or truncated bits that the code dropped although
the bounds allow them to be non-zero; the report names the statement that lost them.  A kernel rewritten into a shape the
interpreter does not know is NOT DECIDED (never an alarm; more than two undecided kernels are analysis-broken).
"""
import re
from sxlib import *
from core import Obligation
from limbs import Limbs, Undecided, padd, pscale, pmul, patom, pconst, pkey, Val

N = 0xFFFFFFFFFFFFFFFFFFFFFFFFFFFFFFFEBAAEDCE6AF48A03BBFD25E8CD0364141
P = 2 ** 256 - 2 ** 32 - 977

SPECS = [
    ("secp256k1_scalar_mul_512", "product"),
    ("secp256k1_scalar_sqr_512", "product"),
    ("secp256k1_scalar_reduce_512", "reduce512"),
    ("secp256k1_scalar_reduce", "reduce"),
    ("secp256k1_scalar_add", "add"),
    ("secp256k1_fe_mul_inner", "fe_product"),
    ("secp256k1_fe_sqr_inner", "fe_product"),
    ("secp256k1_scalar_mul_shift_var", "mul_shift"),
    ("secp256k1_fe_normalize_weak", "fe_weak"),
    ("secp256k1_fe_normalize_weak", "fe_weak_m32"),
    ("secp256k1_fe_half", "fe_half"),
    ("secp256k1_fe_negate_unchecked", "fe_negate"),
    ("secp256k1_fe_mul_int_unchecked", "fe_mul_int"),
    ("secp256k1_fe_add", "fe_add"),
    ("secp256k1_i128_rshift", "i128_rshift"),
    ("secp256k1_scalar_negate", "scalar_negate"),
    ("secp256k1_scalar_cond_negate", "scalar_cond_negate"),
    ("secp256k1_scalar_half", "scalar_half"),
    ("secp256k1_scalar_cmov", "cmov"),
    ("secp256k1_fe_cmov", "cmov"),
    ("secp256k1_fe_storage_cmov", "cmov"),
    ("secp256k1_scalar_get_bits_var", "get_bits"),
    ("secp256k1_scalar_cadd_bit", "cadd_bit"),
]
# C05 is the home of the arithmetic; C01 / C02 quantify their signature equations "on every build configuration" and
# consist of nothing but this arithmetic, so a wrong product in a portable configuration breaks them as well
PROPS_ALL = {"C05", "C01", "C02"}


def _scalar_layout(prog):
    st = prog.structs.get("secp256k1_scalar")
    d = next(x for x in st["fields"] if x["name"] == "d")
    n = d["array_n"]
    return d["bytes"] * 8 // n, n


def _fe_layout(prog):
    st = prog.structs.get("secp256k1_fe")
    d = next(x for x in st["fields"] if x["name"] == "n")
    n = d["array_n"]
    if n == 5:
        return 52, 5, [0xFFFFFFFFFFFFF] * 4 + [0x0FFFFFFFFFFFF]
    if n == 10:
        return 26, 10, [0x3FFFFFF] * 9 + [0x03FFFFF]
    raise AnalysisBroken("R-LIMB: unknown field representation with %d limbs" % n)


def _sum(L, keys, W):
    """(polynomial, sum of upper bounds) of sum mem[key_k] W^k."""
    p = {}
    for k, key in enumerate(keys):
        if key not in L.mem:
            raise Undecided("output %s is never written" % key)
        p = padd(p, pscale(L.mem[key].p, 1 << (W * k)))
    return p


def _insum(L, fmt, n, W):
    p = {}
    for k in range(n):
        a = L.inputs.get(fmt % k)
        if a is not None:
            p = padd(p, pscale(patom(a), 1 << (W * k)))
    return p


def _verdict(L, R, modulus, what):
    """(ok, detail) from a residual polynomial."""
    wrong, dropped, unk = L.residual_report(R, modulus)
    if unk or L.undecided:
        raise Undecided("; ".join(L.undecided[:3]) or "unknown atoms in the residual")
    if wrong:
        return False, "%s does not hold: coefficient of %s is off by %s%s" % (
            what, L.describe(wrong[0][0]), wrong[0][1] if abs(wrong[0][1]) < 1 << 70 else "2^%d.." % (abs(wrong[0][1]).bit_length() - 1),
            " (and %d more monomials)" % (len(wrong) - 1) if len(wrong) > 1 else "")
    if dropped:
        # one failure per statement that loses bits, so that a recorded finding names exactly what it covers
        seen = {}
        for m, c in dropped:
            for a in m:
                if L.atoms[a]["kind"] == "q":
                    seen.setdefault(L.atoms[a]["desc"], L.atoms[a])
        L.failures = []
        for desc, at in seen.items():
            if at.get("target"):
                # identity of the finding: the object of the kernel that receives the truncated value
                slug = "into_" + re.sub(r"[^A-Za-z0-9_]+", "_", at["target"]).strip("_")
                if any(x[0] == slug for x in L.failures):
                    continue
                L.failures.append((slug, at["loc"], "%s does not hold for all inputs: the top of `%s` (%s) can be non-zero and is dropped" % (what, desc, at["loc"])))
                continue
            slug = re.sub(r"[^A-Za-z0-9_+*<>&|-]+", "_", re.sub(r"@\d+", "", desc.split(" at ")[0]))[:48].strip("_")
            L.failures.append((slug, at["loc"], "%s does not hold for all inputs: the top of `%s` (%s) can be non-zero and is dropped" % (what, desc, at["loc"])))
        return False, L.failures[0][2]
    return True, "%s: residual is zero%s; %d places where bits could be lost are excluded by the bounds (%d of them by relaxing the forms), %d quotient atoms all propagated" % (
        what, " modulo the modulus" if modulus else "", L.wraps_proved, L.relaxed, sum(1 for a in L.atoms if a["kind"] == "q"))


def _product(prog, f):
    W, n = _scalar_layout(prog)
    out = f.params[0]["name"]
    ins = [p["name"] for p in f.params[1:]]
    L = Limbs(prog, lambda key: (1 << W) - 1 if any(key.startswith(i + "[0].d[") for i in ins) else None)
    L.run(f)
    X = _sum(L, ["%s[%d]" % (out, j) for j in range(2 * n)], W)
    A = _insum(L, ins[0] + "[0].d[%d]", n, W)
    B = _insum(L, ins[1] + "[0].d[%d]", n, W) if len(ins) > 1 else A
    return _verdict(L, padd(X, pmul(A, B), -1), None, "sum %s[j] 2^(%d j) = %s" % (out, W, " * ".join(ins) if len(ins) > 1 else ins[0] + "^2")), L


def _stop_state(L, f, W, n):
    if L.stopped is None:
        raise Undecided("no call of secp256k1_scalar_reduce reached")
    call, fr = L.stopped
    r = f.params[0]["name"]
    if show(call[3][0]) != r:
        raise Undecided("scalar_reduce called on %s" % show(call[3][0]))
    return call, fr, _sum(L, ["%s[0].d[%d]" % (r, k) for k in range(n)], W)


def _overflow_arg(L, call, fr, r):
    """The second argument of scalar_reduce must be <carry> + secp256k1_scalar_check_overflow(r) with r in its final state;
    returns the carry polynomial or None."""
    v = L.ev(call[3][1], fr)
    ops = [m for m in v.p if any(L.atoms[a]["kind"] == "op" for a in m)]
    if len(ops) != 1 or len(ops[0]) != 1 or v.p[ops[0]] != 1:
        return None
    at = L.atoms[ops[0][0]]
    now = {k: pkey(x.p) for k, x in L.mem.items() if k.startswith(at["base"])}
    if not at["desc"].endswith("(%s)" % r) or at["snap"] != now:
        return None
    c = dict(v.p)
    del c[ops[0]]
    return c


def _reduce512(prog, f):
    W, n = _scalar_layout(prog)
    lname = f.params[1]["name"]
    L = Limbs(prog, lambda key: (1 << W) - 1 if key.startswith(lname + "[") else None)
    L.stop_at = "secp256k1_scalar_reduce"
    L.opaque = {"secp256k1_scalar_check_overflow": 1}
    L.run(f)
    call, fr, X = _stop_state(L, f, W, n)
    c = _overflow_arg(L, call, fr, f.params[0]["name"])
    if c is None:
        return (False, "the overflow handed to secp256k1_scalar_reduce is `%s`, not carry + secp256k1_scalar_check_overflow(r): a result in [n, 2^256) would not be reduced" % show(call[3][1])[:80]), L
    X = padd(X, pscale(c, 1 << 256))
    ok, det = _verdict(L, padd(X, _insum(L, lname + "[%d]", 2 * n, W), -1), N, "r + 2^256 c = l (mod n) before the final reduction")
    if ok:
        ub = L.relax_ub(X)
        if ub is None or ub >= 2 * N:
            return (False, "r + 2^256 c can reach %s >= 2n: one conditional subtraction of n does not reduce it" % (hex(ub) if ub else "?")), L
        det += "; r + 2^256 c <= %s < 2n" % hex(ub)
    return (ok, det), L


def _reduce(prog, f):
    W, n = _scalar_layout(prog)
    r, ov = f.params[0]["name"], f.params[1]["name"]
    L = Limbs(prog, lambda key: (1 << W) - 1 if key.startswith(r + "[0].d[") else (1 if key == ov else None))
    L.run(f)
    X = _sum(L, ["%s[0].d[%d]" % (r, k) for k in range(n)], W)
    E = padd(_insum(L, r + "[0].d[%d]", n, W), pscale(patom(L.inputs[ov]), (1 << 256) - N) if ov in L.inputs else {})
    if ov not in L.inputs:
        return (False, "the overflow argument is not used"), L
    return _verdict(L, padd(X, E, -1), 1 << 256, "r' = r + overflow (2^256 - n) (mod 2^256)"), L


def _add(prog, f):
    W, n = _scalar_layout(prog)
    a, b = f.params[1]["name"], f.params[2]["name"]
    L = Limbs(prog, lambda key: (1 << W) - 1 if key.startswith((a + "[0].d[", b + "[0].d[")) else None)
    L.stop_at = "secp256k1_scalar_reduce"
    L.opaque = {"secp256k1_scalar_check_overflow": 1}
    L.run(f)
    call, fr, X = _stop_state(L, f, W, n)
    c = _overflow_arg(L, call, fr, f.params[0]["name"])
    if c is None:
        return (False, "the overflow handed to secp256k1_scalar_reduce is `%s`, not carry + secp256k1_scalar_check_overflow(r)" % show(call[3][1])[:80]), L
    X = padd(X, pscale(c, 1 << 256))
    E = padd(_insum(L, a + "[0].d[%d]", n, W), _insum(L, b + "[0].d[%d]", n, W))
    return _verdict(L, padd(X, E, -1), None, "r + 2^256 carry = a + b before the final reduction"), L


def _fe_product(prog, f):
    B, n, top = _fe_layout(prog)
    r = f.params[0]["name"]
    ins = [p["name"] for p in f.params[1:]]
    # contract of secp256k1_fe_mul / _sqr: magnitude at most 8, i.e. limb k at most 2 * 8 * (largest normalised limb k)
    ubs = [16 * t for t in top]

    def iub(key):
        for i in ins:
            if key.startswith(i + "["):
                return ubs[int(key[len(i) + 1:-1])]
        return None
    L = Limbs(prog, iub)
    L.run(f)
    X = _sum(L, ["%s[%d]" % (r, k) for k in range(n)], B)
    A = _insum(L, ins[0] + "[%d]", n, B)
    Bp = _insum(L, ins[1] + "[%d]", n, B) if len(ins) > 1 else A
    ok, det = _verdict(L, padd(X, pmul(A, Bp), -1), P, "sum r[k] 2^(%d k) = %s (mod p) for inputs of magnitude 8" % (B, " * ".join(ins) if len(ins) > 1 else ins[0] + "^2"))
    if ok:
        over = [(k, L.mem["%s[%d]" % (r, k)].ub) for k in range(n) if L.mem["%s[%d]" % (r, k)].ub > 2 * top[k]]
        if over:
            return (False, "output limb %d can reach %s, above the bound %s of magnitude 1" % (over[0][0], hex(over[0][1]), hex(2 * top[over[0][0]]))), L
        det += "; output limbs within magnitude 1 (%s)" % ", ".join("r[%d] < 2^%d" % (k, L.mem["%s[%d]" % (r, k)].ub.bit_length()) for k in range(n))
    return (ok, det), L


def _mul_shift(prog, f):
    W, n = _scalar_layout(prog)
    r, a, b, sh = [p["name"] for p in f.params[:4]]
    shifts = set()
    for g in prog.functions.values():
        for _el, c in g.all_calls():
            if callee_name(c) == f.name and len(c[3]) > 3:
                v = int_val(c[3][3])
                shifts.add(v)
    if not shifts or None in shifts:
        raise Undecided("callers pass a non-constant shift")
    dets = []
    Lk = None
    for s in sorted(shifts):
        L = Limbs(prog, lambda key: (1 << W) - 1 if key.startswith((a + "[0].d[", b + "[0].d[")) else None)
        L.mem[sh] = Val(pconst(s), s)
        L.stop_at = "secp256k1_scalar_cadd_bit"
        L.run(f)
        Lk = L
        A = _insum(L, a + "[0].d[%d]", n, W)
        Bp = _insum(L, b + "[0].d[%d]", n, W)
        X = _sum(L, ["%s[0].d[%d]" % (r, k) for k in range(n)], W)
        # the product limbs: the local array handed to scalar_mul_512
        lkeys = sorted((k for k in L.mem if k.startswith("l[") and "." not in k), key=lambda k: int(k[2:-1]))
        if len(lkeys) != 2 * n:
            raise Undecided("product limbs not found")
        prod = _sum(L, lkeys, W)
        okp, detp = _verdict(L, padd(prod, pmul(A, Bp), -1), None, "l = a b")
        if not okp:
            return (False, detp), L
        # r 2^s + (l mod 2^s) = l : r is the exact quotient when the remainder is the sum of the low limbs and bits
        if s % W:
            raise Undecided("shift %d is not a multiple of the limb size: remainder form not modelled" % s)
        low = _sum(L, lkeys[:s // W], W) if s // W else {}
        if L.stopped is None:
            # no cadd_bit: the function itself must have added the rounding bit, carries included
            lo_top, bit = L.split(L.mem[lkeys[s // W - 1]], 1 << (W - 1), "rounding bit")
            R = padd(padd(pscale(padd(X, bit.p, -1), 1 << s), low), prod, -1)
            ok, det = _verdict(L, R, None, "r = floor(a b / 2^%d) + rounding bit" % s)
            if not ok:
                return (False, det), L
            dets.append(det)
            continue
        call, fr = L.stopped
        R = padd(padd(pscale(X, 1 << s), low), prod, -1)
        ok, det = _verdict(L, R, None, "r = floor(a b / 2^%d) before rounding" % s)
        if not ok:
            return (False, det), L
        if show(call[3][0]) != r or int_val(call[3][1]) != 0:
            return (False, "rounding goes to `%s` at bit `%s`, not to bit 0 of r" % (show(call[3][0]), show(call[3][1]))), L
        bit = L.ev(call[3][2], fr)
        lo_top, want = L.split(L.mem[lkeys[s // W - 1]], 1 << (W - 1), "rounding bit")
        if pkey(bit.p) != pkey(want.p):
            return (False, "the rounding bit `%s` is not bit %d of the product" % (show(call[3][2])[:70], s - 1)), L
        dets.append(det + "; rounding bit is bit %d of the product, added through secp256k1_scalar_cadd_bit" % (s - 1))
    return (True, "; ".join(dets)), Lk


def _const_args(prog, fname, idx):
    vals = set()
    for g in prog.functions.values():
        for _el, c in g.all_calls():
            if callee_name(c) == fname and len(c[3]) > idx:
                vals.add(int_val(c[3][idx]))
    return vals


def _fe_cells(name, n):
    return ["%s[0].n[%d]" % (name, k) for k in range(n)]


def _fe_run(prog, f, mags, scalars=None):
    """Interpret f with the fe parameter `name` bounded by magnitude mags[name]; scalars: parameter -> constant."""
    B, n, top = _fe_layout(prog)

    def iub(key):
        for nm, m in mags.items():
            if key.startswith(nm + "[0].n["):
                return 2 * m * top[int(key[len(nm) + 6:-1])]
        return None
    L = Limbs(prog, iub)
    for k, v in (scalars or {}).items():
        L.mem[k] = Val(pconst(v), v)
    L.run(f)
    return L, B, n, top


def _mag_check(L, name, n, top, mag):
    over = [(k, L.mem["%s[0].n[%d]" % (name, k)].ub) for k in range(n) if L.mem["%s[0].n[%d]" % (name, k)].ub > 2 * mag * top[k]]
    if over:
        return "output limb %d can reach %s, above the bound %s of magnitude %d" % (over[0][0], hex(over[0][1]), hex(2 * mag * top[over[0][0]]), mag)
    return None


def _fe_weak(prog, f, mag=31):
    r = f.params[0]["name"]
    L, B, n, top = _fe_run(prog, f, {r: mag})
    X = _sum(L, _fe_cells(r, n), B)
    ok, det = _verdict(L, padd(X, _insum(L, r + "[0].n[%d]", n, B), -1), P, "r' = r (mod p) for magnitude %d" % mag)
    if ok:
        bad = _mag_check(L, r, n, top, 1)
        if bad:
            return (False, bad), L
        det += "; output within magnitude 1"
    return (ok, det), L


def _fe_weak32(prog, f):
    return _fe_weak(prog, f, 32)


def _fe_half(prog, f):
    r = f.params[0]["name"]
    dets = []
    for m in (1, 2, 3, 8, 16, 31):
        L, B, n, top = _fe_run(prog, f, {r: m})
        X = _sum(L, _fe_cells(r, n), B)
        ok, det = _verdict(L, padd(pscale(X, 2), _insum(L, r + "[0].n[%d]", n, B), -1), P, "2 r' = r (mod p) for magnitude %d" % m)
        if not ok:
            return (False, det), L
        bad = _mag_check(L, r, n, top, m // 2 + 1)
        if bad:
            return (False, "input magnitude %d: %s" % (m, bad)), L
        dets.append(det)
    return (True, dets[-1] + "; magnitudes 1, 2, 3, 8, 16, 31 -> floor(m/2)+1"), L


def _fe_negate(prog, f):
    r, a, mp = [p["name"] for p in f.params[:3]]
    ms = _const_args(prog, f.name, 2)
    if not ms or None in ms:
        raise Undecided("callers pass a non-constant magnitude")
    L = None
    for m in sorted(ms):
        L, B, n, top = _fe_run(prog, f, {a: m}, {mp: m})
        X = _sum(L, _fe_cells(r, n), B)
        ok, det = _verdict(L, padd(X, _insum(L, a + "[0].n[%d]", n, B)), P, "r + a = 0 (mod p) for magnitude %d" % m)
        if not ok:
            return (False, det), L
        bad = _mag_check(L, r, n, top, m + 1)
        if bad:
            return (False, "m = %d: %s" % (m, bad)), L
    return (True, "r + a = 0 (mod p), no subtraction wraps and the output is within magnitude m + 1 for every m the callers pass (%s)" % ", ".join(map(str, sorted(ms)))), L


def _fe_mul_int(prog, f):
    r, ap = [p["name"] for p in f.params[:2]]
    cs = _const_args(prog, f.name, 1)
    if not cs or None in cs:
        raise Undecided("callers pass a non-constant factor")
    L = None
    for c in sorted(cs):
        L, B, n, top = _fe_run(prog, f, {r: 32 // c}, {ap: c})
        X = _sum(L, _fe_cells(r, n), B)
        ok, det = _verdict(L, padd(X, pscale(_insum(L, r + "[0].n[%d]", n, B), c), -1), None, "r' = %d r for magnitude %d" % (c, 32 // c))
        if not ok:
            return (False, det), L
        bad = _mag_check(L, r, n, top, 32)
        if bad:
            return (False, bad), L
    return (True, "r' = a r exactly, no limb wraps, for every factor the callers pass (%s) at the largest admitted magnitude" % ", ".join(map(str, sorted(cs)))), L


def _fe_add(prog, f):
    r, a = [p["name"] for p in f.params[:2]]
    L, B, n, top = _fe_run(prog, f, {r: 16, a: 16})
    X = _sum(L, _fe_cells(r, n), B)
    E = padd(_insum(L, r + "[0].n[%d]", n, B), _insum(L, a + "[0].n[%d]", n, B))
    return _verdict(L, padd(X, E, -1), None, "r' = r + a for magnitudes 16 + 16"), L


def _i128_rshift(prog, f):
    """Emulated signed 128-bit shift: (lo', hi') is the two's-complement pattern of floor(x / 2^n) for the pattern x = (lo, hi),
    for every constant n the callers pass."""
    st = prog.structs.get("secp256k1_int128") or prog.structs.get("secp256k1_uint128")
    r, np_ = f.params[0]["name"], f.params[1]["name"]
    if f.params[0].get("pointee_canon") in ("__int128", "unsigned __int128") or not st:
        return (True, "native 128-bit integers: the shift is the compiler's"), None
    ns = _const_args(prog, f.name, 1)
    if not ns or None in ns:
        raise Undecided("callers pass a non-constant shift")
    L = None
    for n in sorted(ns):
        L = Limbs(prog, lambda key: (1 << 64) - 1 if key in (r + "[0].lo", r + "[0].hi") else None)
        L.mem[np_] = Val(pconst(n), n)
        L.run(f)
        lo, hi = L.inputs.get(r + "[0].lo"), L.inputs.get(r + "[0].hi")
        if hi is None:
            return (False, "the high word is not used"), L
        X = padd(L.mem[r + "[0].lo"].p if r + "[0].lo" in L.mem else patom(lo), pscale(L.mem[r + "[0].hi"].p if r + "[0].hi" in L.mem else patom(hi), 1 << 64))
        x = padd(patom(lo) if lo is not None else {}, pscale(patom(hi), 1 << 64))
        lo_, q = L.split(Val(x, (1 << 128) - 1), 1 << n, "x >> %d" % n)
        l2, sign = L.split(Val(patom(hi), (1 << 64) - 1), 1 << 63, "sign of x")
        E = padd(q.p, pscale(sign.p, (1 << 128) - (1 << (128 - n))))
        ok, det = _verdict(L, padd(X, E, -1), None, "(lo', hi') = x >> %d as a signed 128-bit value" % n)
        if not ok:
            return (False, det), L
    return (True, "arithmetic shift by %s: low word, high word and sign extension as specified" % ", ".join(map(str, sorted(ns)))), L


def _one_minus(p):
    return padd(pconst(1), p, -1)


def _zero_bit(L, name):
    """The symbol of secp256k1_scalar_is_zero(<name>), applied once and before anything was written to the object."""
    ops = [i for i, a in enumerate(L.atoms) if a["kind"] == "op" and a["desc"].startswith("secp256k1_scalar_is_zero(")]
    if len(ops) != 1:
        raise Undecided("%d uses of secp256k1_scalar_is_zero" % len(ops))
    at = L.atoms[ops[0]]
    if not at["desc"].endswith("(%s)" % name) or at["snap"]:
        raise Undecided("secp256k1_scalar_is_zero is not applied to the unmodified %s" % name)
    return patom(ops[0])


def _scalar_negate(prog, f):
    W, n = _scalar_layout(prog)
    r, a = f.params[0]["name"], f.params[1]["name"]
    L = Limbs(prog, lambda key: (1 << W) - 1 if key.startswith(a + "[0].d[") else None)
    L.opaque = {"secp256k1_scalar_is_zero": 1}
    L.run(f)
    X = _sum(L, ["%s[0].d[%d]" % (r, k) for k in range(n)], W)
    z = _zero_bit(L, a)
    E = L.reduce(pmul(_one_minus(z), padd(pconst(N), _insum(L, a + "[0].d[%d]", n, W), -1)))
    return _verdict(L, padd(X, E, -1), 1 << 256, "r = (a == 0 ? 0 : n - a) (mod 2^256)"), L


def _scalar_cond_negate(prog, f):
    W, n = _scalar_layout(prog)
    r, fl = f.params[0]["name"], f.params[1]["name"]
    L = Limbs(prog, lambda key: (1 << W) - 1 if key.startswith(r + "[0].d[") else (1 if key == fl else None))
    L.opaque = {"secp256k1_scalar_is_zero": 1}
    L.run(f)
    X = _sum(L, ["%s[0].d[%d]" % (r, k) for k in range(n)], W)
    z = _zero_bit(L, r)
    R = _insum(L, r + "[0].d[%d]", n, W)
    if fl not in L.inputs:
        return (False, "the flag is not used"), L
    fb = patom(L.inputs[fl])
    E = pmul(_one_minus(z), padd(pmul(_one_minus(fb), R), pmul(fb, padd(pconst(N), R, -1))))
    return _verdict(L, padd(X, L.reduce(E), -1), 1 << 256, "r' = (r == 0 ? 0 : flag ? n - r : r) (mod 2^256)"), L


def _scalar_half(prog, f):
    W, n = _scalar_layout(prog)
    r, a = f.params[0]["name"], f.params[1]["name"]
    L = Limbs(prog, lambda key: (1 << W) - 1 if key.startswith(a + "[0].d[") else None)
    L.run(f)
    X = _sum(L, ["%s[0].d[%d]" % (r, k) for k in range(n)], W)
    a0 = L.inputs.get(a + "[0].d[0]")
    if a0 is None:
        return (False, "the low limb is not read"), L
    lo, q = L.split(Val(patom(a0), (1 << W) - 1), 2, "low bit of a")
    E = padd(_insum(L, a + "[0].d[%d]", n, W), pscale(lo.p, N))
    return _verdict(L, padd(pscale(X, 2), E, -1), None, "2 r = a + (a & 1) n"), L


def _cmov(prog, f):
    r, a, fl = [p["name"] for p in f.params[:3]]
    st = prog.structs.get(f.params[0].get("pointee_canon") or "") or prog.structs.get(f.params[0].get("pointee") or "")
    fld = (st or {}).get("fields", [{}])[0]
    wbits = (fld.get("bytes", 8) * 8 // (fld.get("array_n") or 1)) if fld else 64
    L = Limbs(prog, lambda key: (1 << wbits) - 1 if key.startswith((r + "[0].", a + "[0].")) else (1 if key == fl else None))
    L.run(f)
    if fl not in L.inputs:
        return (False, "the flag is not used"), L
    fb = patom(L.inputs[fl])
    keys = [k for k in sorted(L.mem) if k.startswith(r + "[0].") and "#" not in k]
    if not keys:
        raise Undecided("no word of %s is written" % r)
    R = {}
    for i, k in enumerate(keys):
        ri, ai = L.inputs.get(k), L.inputs.get(a + k[len(r):])
        if ri is None or ai is None:
            return (False, "word %s of the result does not depend on both %s and %s" % (k, r, a)), L
        E = padd(pmul(_one_minus(fb), patom(ri)), pmul(fb, patom(ai)))
        R = padd(R, pscale(padd(L.mem[k].p, E, -1), 1 << (70 * i)))          # disjoint weights: every word must match
    return _verdict(L, L.reduce(R), None, "every word of r' is flag ? a : r (%d words of %d bits)" % (len(keys), wbits)), L


def _get_bits(prog, f):
    """secp256k1_scalar_get_bits_var(a, offset, count) = floor(a / 2^offset) mod 2^count for every offset and count the
    contract admits (count in 1..32, offset + count <= 256): the control flow depends on the two integers only, so each of
    the 7696 pairs is interpreted with the scalar symbolic."""
    W, n = _scalar_layout(prog)
    a, op_, cp = [p["name"] for p in f.params[:3]]
    runs, L = 0, None
    for count in range(1, 33):
        for offset in range(0, 257 - count):
            L = Limbs(prog, lambda key: (1 << W) - 1 if key.startswith(a + "[0].d[") else None)
            L.eval_root_return = True
            L.mem[op_] = Val(pconst(offset), offset)
            L.mem[cp] = Val(pconst(count), count)
            fr = L.run(f)
            runs += 1
            if fr.ret is None or L.undecided:
                raise Undecided("offset %d count %d: %s" % (offset, count, (L.undecided or ["no value returned"])[0]))
            i, s_ = offset // W, offset % W
            Q = {}
            for k in range(i, n):
                key = "%s[0].d[%d]" % (a, k)
                if key not in L.inputs:
                    L.inputs[key] = L.new_atom("in", (1 << W) - 1, desc=key)
                v = Val(patom(L.inputs[key]), (1 << W) - 1)
                if k == i:
                    Q = padd(Q, L.split(v, 1 << s_, "a >> offset")[1].p if s_ else v.p)
                else:
                    Q = padd(Q, pscale(v.p, 1 << (W * (k - i) - s_)))
            wrong, dropped, unk = L.residual_report(padd(fr.ret.p, Q, -1), 1 << count)
            if fr.ret.ub >= (1 << count):
                return (False, "offset %d, count %d: the result can reach %s, not below 2^%d" % (offset, count, hex(fr.ret.ub), count)), L
            if wrong or dropped or unk:
                return (False, "offset %d, count %d: the result is not bits %d..%d of the scalar" % (offset, count, offset, offset + count - 1)), L
    return (True, "floor(a / 2^offset) mod 2^count for all %d admitted (offset, count) pairs" % runs), L


def _cadd_bit(prog, f):
    W, n = _scalar_layout(prog)
    r, bp, fp = [p["name"] for p in f.params[:3]]
    L = None
    for flag in (0, 1):
        for bit in range(256):
            L = Limbs(prog, lambda key: (1 << W) - 1 if key.startswith(r + "[0].d[") else None)
            L.mem[bp] = Val(pconst(bit), bit)
            L.mem[fp] = Val(pconst(flag), flag)
            L.run(f)
            if L.undecided:
                raise Undecided("bit %d flag %d: %s" % (bit, flag, L.undecided[0]))
            X = _sum(L, ["%s[0].d[%d]" % (r, k) for k in range(n)], W)
            E = padd(_insum(L, r + "[0].d[%d]", n, W), pconst(flag << bit))
            wrong, dropped, unk = L.residual_report(padd(X, E, -1), 1 << 256)
            if wrong or dropped or unk:
                return (False, "bit %d, flag %d: r' is not r + flag 2^bit (mod 2^256)" % (bit, flag)), L
    return (True, "r' = r + flag 2^bit (mod 2^256) for all 256 bit positions and both flag values"), L


KINDS = {"get_bits": _get_bits, "cadd_bit": _cadd_bit, "scalar_negate": _scalar_negate, "scalar_cond_negate": _scalar_cond_negate, "scalar_half": _scalar_half, "cmov": _cmov,
         "i128_rshift": _i128_rshift, "fe_weak": _fe_weak, "fe_weak_m32": _fe_weak32, "fe_half": _fe_half, "fe_negate": _fe_negate, "fe_mul_int": _fe_mul_int, "fe_add": _fe_add,
         "product": _product, "reduce512": _reduce512, "reduce": _reduce, "add": _add, "fe_product": _fe_product, "mul_shift": _mul_shift}


def obligations(prog):
    obs, undec, stats = [], [], {}
    for (fname, knd) in SPECS:
        f = prog.functions.get(fname)
        if (f is None or not f.blocks) and knd == "i128_rshift":
            continue          # no 128-bit integers in the 32-bit configuration
        if f is None or not f.blocks:
            raise AnalysisBroken("R-LIMB: kernel %s not found" % fname)
        oid = "R-LIMB:%s:%s" % (fname, knd)
        PROPS = PROPS_ALL if knd != "fe_weak_m32" else {"C05"}     # the magnitude-32 edge of the contract is C05's quantifier
        text = "%s computes its specification for every input its contract admits (%s)" % (fname, knd)
        if any(kind(el.e) == "asm" for el in f.elems()):
            obs.append(Obligation("R-LIMB", oid, f.loc, fname, text, True, "NOT DECIDED: inline assembly in this configuration", props=PROPS))
            continue
        try:
            (ok, det), L = KINDS[knd](prog, f)
            if L is not None:
                stats[fname] = {"atoms": len(L.atoms), "wraps_excluded": L.wraps_proved, "by_relaxation": L.relaxed}
            if not ok and getattr(L, "failures", None):
                for (slug, loc, d) in L.failures:
                    obs.append(Obligation("R-LIMB", "%s:lost:%s" % (oid, slug), loc, fname, text, False, d, props=PROPS))
            else:
                obs.append(Obligation("R-LIMB", oid if ok else oid + ":wrong", f.loc, fname, text, ok, det, props=PROPS))
        except Undecided as e:
            undec.append(fname)
            obs.append(Obligation("R-LIMB", oid, f.loc, fname, text, True, "NOT DECIDED: %s" % e, props=PROPS))
    if len(undec) > 2:
        raise AnalysisBroken("R-LIMB: %d kernels could not be interpreted (%s): the engine lost its footing" % (len(undec), ", ".join(undec)))
    return obs, {"kernels": len(SPECS), "not_decided": undec, "per_kernel": stats}


if __name__ == "__main__":
    import sys
    prog = Program(sys.argv[1]) if len(sys.argv) > 1 and sys.argv[1].endswith(".json") else program(sys.argv[1] if len(sys.argv) > 1 else "K1")
    obs, st = obligations(prog)
    for o in obs:
        print("OK  " if o.ok else "FAIL", o.oid, "|", o.detail[:260])
    print(st["not_decided"])
