#!/usr/bin/env python3
"""Regenerate /verif/MANIFEST.json from rules/registry.py (claimed checks) and
tables/not_applicable.json (properties or clauses not claimed)."""
import json, os, sys
sys.path.insert(0, os.path.dirname(os.path.abspath(__file__)))
import registry
from sxlib import VERIF

na = json.load(open(os.path.join(VERIF, "tables", "not_applicable.json")))
ids = [json.loads(l)["id"] for l in open(os.path.join(VERIF, "properties.jsonl"))]
checks = []
for pid in ids:
    if pid not in registry.PROPERTIES:
        continue
    sp = registry.PROPERTIES[pid]
    checks.append({
        "property_id": pid,
        "quick_cmd": "./check %s --tier quick" % pid,
        "thorough_cmd": "./check %s --tier thorough" % pid,
        "evidence_file": "/verif/evidence/%s.json" % pid,
        "replay_cmd_template": "./check --explain {path}",
        "engine": sp.get("engine", "sx+rules"),
        "level_claimed": {"category": sp.get("level", "other"),
                          "text": sp["explanation"] + " NOT decided (left to other technique families): " + sp["not_decided"],
                          "design_ref": "DESIGN.md §5 " + pid},
        "level_note": "; ".join(sp.get("assumptions", [])),
        "technique": sp.get("technique", "static analysis: custom clang AST/CFG def-use and dominance rules (" + ", ".join(r["name"] for r in sp["rules"]) + ")"),
    })
m = {
    "version": 1,
    "setup_cmd": "make -C /verif/engines all",
    "hooks": {"guard": "SECP256K1_ZKP_VERIF", "enable": "none needed: the analysis reads /repo's sources directly; CHECKMEM markers are made visible with -DVALGRIND and /verif/stubs/valgrind/memcheck.h first on the include path",
              "baseline_off_cmd": "cmake --build /repo/_build -j16 && ctest --test-dir /repo/_build -j8 --timeout 900",
              "source_commits": [], "add_only": True},
    "engines": [
        {"name": "sx", "path": "engines/sx.cc", "serves_properties": sorted(registry.PROPERTIES), "kind_free_text": "clang libTooling fact extractor (AST + per-function clang::CFG) feeding Python rule modules"},
        {"name": "irx", "path": "engines/irx.cc", "serves_properties": [p for p in ("C06", "C20") if p in registry.PROPERTIES], "kind_free_text": "LLVM-IR abstract interpreter (byte-granular taint / write effects, fully context sensitive)"},
    ],
    "checks": checks,
    "not_applicable": [{"property_id": p, "reason": na[p]} for p in ids if p not in registry.PROPERTIES],
    "notes": "Technique family: static analysis only. See DESIGN.md. Exit 2 = analysis broken (never a pass, never a violation).",
}
for p in ids:
    if p not in registry.PROPERTIES and p not in na:
        sys.exit("property %s neither claimed nor listed in tables/not_applicable.json" % p)
json.dump(m, open(os.path.join(VERIF, "MANIFEST.json"), "w"), indent=1)
print("MANIFEST.json: %d checks, %d not applicable" % (len(checks), len(m["not_applicable"])))
