"""R-TAG — tagged-hash midstate constants (DESIGN §4).

Each call of secp256k1_sha256_initialize_midstate(sha, 64, midstate) must be given the eight words that the SHA-256
compression function yields for the single block SHA256(tag) || SHA256(tag), for the tag the specification assigns to
that function (tables/tags.json: function -> tag, read from the specifications / the comment above each function).
The reference value is computed here (own compression function, hashlib only for SHA256(tag)).
"""
import hashlib
import struct

from sxlib import *
from core import Obligation, load_table

K = [
    0x428a2f98, 0x71374491, 0xb5c0fbcf, 0xe9b5dba5, 0x3956c25b, 0x59f111f1, 0x923f82a4, 0xab1c5ed5, 0xd807aa98, 0x12835b01, 0x243185be, 0x550c7dc3,
    0x72be5d74, 0x80deb1fe, 0x9bdc06a7, 0xc19bf174, 0xe49b69c1, 0xefbe4786, 0x0fc19dc6, 0x240ca1cc, 0x2de92c6f, 0x4a7484aa, 0x5cb0a9dc, 0x76f988da,
    0x983e5152, 0xa831c66d, 0xb00327c8, 0xbf597fc7, 0xc6e00bf3, 0xd5a79147, 0x06ca6351, 0x14292967, 0x27b70a85, 0x2e1b2138, 0x4d2c6dfc, 0x53380d13,
    0x650a7354, 0x766a0abb, 0x81c2c92e, 0x92722c85, 0xa2bfe8a1, 0xa81a664b, 0xc24b8b70, 0xc76c51a3, 0xd192e819, 0xd6990624, 0xf40e3585, 0x106aa070,
    0x19a4c116, 0x1e376c08, 0x2748774c, 0x34b0bcb5, 0x391c0cb3, 0x4ed8aa4a, 0x5b9cca4f, 0x682e6ff3, 0x748f82ee, 0x78a5636f, 0x84c87814, 0x8cc70208,
    0x90befffa, 0xa4506ceb, 0xbef9a3f7, 0xc67178f2]
IV = [0x6a09e667, 0xbb67ae85, 0x3c6ef372, 0xa54ff53a, 0x510e527f, 0x9b05688c, 0x1f83d9ab, 0x5be0cd19]


def _rotr(x, n):
    return ((x >> n) | (x << (32 - n))) & 0xffffffff


def compress(state, block):
    w = list(struct.unpack(">16I", block))
    for i in range(16, 64):
        s0 = _rotr(w[i - 15], 7) ^ _rotr(w[i - 15], 18) ^ (w[i - 15] >> 3)
        s1 = _rotr(w[i - 2], 17) ^ _rotr(w[i - 2], 19) ^ (w[i - 2] >> 10)
        w.append((w[i - 16] + s0 + w[i - 7] + s1) & 0xffffffff)
    a, b, c, d, e, f, g, h = state
    for i in range(64):
        S1 = _rotr(e, 6) ^ _rotr(e, 11) ^ _rotr(e, 25)
        ch = (e & f) ^ (~e & g)
        t1 = (h + S1 + ch + K[i] + w[i]) & 0xffffffff
        S0 = _rotr(a, 2) ^ _rotr(a, 13) ^ _rotr(a, 22)
        mj = (a & b) ^ (a & c) ^ (b & c)
        t2 = (S0 + mj) & 0xffffffff
        h, g, f, e, d, c, b, a = g, f, e, (d + t1) & 0xffffffff, c, b, a, (t1 + t2) & 0xffffffff
    return [(x + y) & 0xffffffff for x, y in zip(state, [a, b, c, d, e, f, g, h])]


def midstate(tag):
    t = hashlib.sha256(tag.encode()).digest()
    return compress(IV, t + t)


def _self_test():
    # the compression function must reproduce hashlib on a one-block message
    msg = b"abc"
    pad = msg + b"\x80" + b"\x00" * (55 - len(msg)) + struct.pack(">Q", 8 * len(msg))
    assert b"".join(struct.pack(">I", x) for x in compress(IV, pad)) == hashlib.sha256(msg).digest()


def obligations(prog):
    _self_test()
    tags = load_table("tags.json")
    obs = []
    used = set()
    sites = prog.callers().get("secp256k1_sha256_initialize_midstate", [])
    for (f, el, c) in sorted(sites, key=lambda t: (t[0].file, t[0].line)):
        if f.file.endswith("tests_impl.h") or f.file.startswith("src/tests"):
            continue
        arr = strip(c[3][2]) if len(c[3]) > 2 else None
        name = None
        if kind(arr) == "decay":
            arr = strip(arr[1])
        if kind(arr) in ("gvar", "var"):
            name = arr[1]
        words = None
        for el2 in f.elems():
            if kind(el2.e) == "decls":
                for d in el2.e[1:]:
                    if d[1] == name and kind(d[2]) == "init":
                        words = [int_val(x) for x in d[2][1:]]
        oid = "R-TAG:%s" % f.name
        if f.name not in tags:
            obs.append(Obligation("R-TAG", oid, c[2], f.name, "every tagged-hash initialiser must have its tag recorded in tables/tags.json", False,
                                  "no tag recorded for %s" % f.name))
            continue
        used.add(f.name)
        tag = tags[f.name]
        want = midstate(tag)
        text = "the midstate constants of %s must be the SHA-256 midstate of SHA256(\"%s\")||SHA256(\"%s\")" % (f.name, tag, tag)
        if words is None or any(w is None for w in words):
            obs.append(Obligation("R-TAG", oid, c[2], f.name, text, False, "midstate array initialiser not found as eight integer constants"))
            continue
        ok = [w & 0xffffffff for w in words] == want and is_int(c[3][1], 64)
        obs.append(Obligation("R-TAG", oid, c[2], f.name, text, ok,
                              "matches" if ok else "constants %s differ from the reference %s (or the byte count is not 64)"
                              % (" ".join("%08x" % (w & 0xffffffff) for w in words), " ".join("%08x" % w for w in want))))
    stale = sorted(set(tags) - used - {"_comment"})
    if stale:
        raise AnalysisBroken("R-TAG: tags recorded for functions that no longer initialise a midstate: %s" % ", ".join(stale))
    if len(obs) < 18:
        raise AnalysisBroken("R-TAG: only %d midstate initialisers found (floor 18)" % len(obs))
    return obs, {"sites": len(obs)}


if __name__ == "__main__":
    import sys
    prog = program("K0")
    if len(sys.argv) > 1 and sys.argv[1] == "list":
        for (f, el, c) in prog.callers().get("secp256k1_sha256_initialize_midstate", []):
            print(f.name, f.loc)
    else:
        obs, st = obligations(prog)
        print(st)
        for o in obs:
            print("OK  " if o.ok else "VIOL", o.oid, o.loc, o.detail[:150])
