"""R-PAIR — acquire / release on all exits (DESIGN §4).

Typestate over each function that acquires a resource: heap blocks (`x = malloc / checked_malloc`) and scratch-space
checkpoints (`c = secp256k1_scratch_checkpoint(..)`).  On every path from the acquisition to a return the resource is
released (`free(x)`, `secp256k1_scratch_apply_checkpoint(.., c)`), or ownership leaves the function (returned, stored
through an out-parameter, or owned by a returned object such as `ret->gens` with `return ret`), or the acquisition is
known to have failed on that path (`x == NULL`).  May-analysis: a path that leaks is reported with its return.
"""
from sxlib import *
from core import Obligation

ACQ_HEAP = ("malloc", "checked_malloc", "calloc", "realloc")
ACQ_CP = "secp256k1_scratch_checkpoint"
REL_CP = "secp256k1_scratch_apply_checkpoint"


def _key(e):
    return show(strip(e)).replace(" ", "")


def _owned_by(key, owner):
    return key == owner or key.startswith(owner + "->") or key.startswith(owner + ".") or key.startswith("(*" + owner + ")")


class Pair:
    def __init__(self, fn, acq=ACQ_HEAP):
        self.fn = fn
        self.acq = tuple(acq)            # heap allocators, closed over wrappers that return the block they acquired
        self.returns_owned = False       # some return hands a live block to the caller: fn is itself an allocator
        self.acq_sites = {}
        self.leaks = []
        self._solve()

    def stmt(self, live, el):
        live = set(live)
        e = el.e
        for x in walk(e):
            k = kind(x)
            if k == "assign" and x[1] == "=":
                rhs = strip(x[3])
                if kind(rhs) == "call" and callee_name(rhs) in self.acq:
                    key = _key(x[2])
                    live.add(key)
                    self.acq_sites[key] = rhs[2]
                elif kind(rhs) == "call" and callee_name(rhs) == ACQ_CP:
                    key = "checkpoint:" + _key(x[2])
                    live.add("pending:" + key)
                    self.acq_sites[key] = rhs[2]
                else:
                    # ownership transfer by storing a live pointer through an out-parameter or into another object
                    rk = _key(rhs)
                    if rk in live and kind(strip(x[2])) != "var":
                        live = {k2 for k2 in live if not _owned_by(k2, rk)}
                    elif rk in live and kind(strip(x[2])) == "var":
                        # p2 = p: the block is tracked under its newest name from here on
                        live.discard(rk)
                        live.add(_key(x[2]))
                        self.acq_sites[_key(x[2])] = self.acq_sites.get(rk, "?")
            elif k == "decl" and x[2] is not None:
                rhs = strip(x[2])
                if kind(rhs) == "call" and callee_name(rhs) in self.acq:
                    live.add(x[1])
                    self.acq_sites[x[1]] = rhs[2]
                elif kind(rhs) == "call" and callee_name(rhs) == ACQ_CP:
                    # a checkpoint binds nothing until something is allocated after it
                    live.add("pending:checkpoint:" + x[1])
                    self.acq_sites["checkpoint:" + x[1]] = rhs[2]
                elif _key(rhs) in live:
                    rk = _key(rhs)
                    live.discard(rk)
                    live.add(x[1])
                    self.acq_sites[x[1]] = self.acq_sites.get(rk, "?")
            elif k == "call":
                cal = callee_name(x)
                if cal == "free" and x[3]:
                    key = _key(x[3][0])
                    live.discard(key)
                elif cal == REL_CP and len(x[3]) >= 3:
                    live.discard("checkpoint:" + _key(x[3][2]))
                    live.add("pending:checkpoint:" + _key(x[3][2]))     # the checkpoint value stays usable
                elif cal == "secp256k1_scratch_alloc":
                    for k2 in [k2 for k2 in live if k2.startswith("pending:")]:
                        live.discard(k2)
                        live.add(k2[len("pending:"):])
                elif cal and cal.endswith("_destroy") and x[3]:
                    key = _key(x[3][-1])
                    live = {k2 for k2 in live if not _owned_by(k2, key)}
        if kind(e) == "return" and e[1] is not None:
            rk = _key(e[1])
            if any(_owned_by(k2, rk) and not k2.startswith(("pending:", "checkpoint:")) for k2 in live):
                self.returns_owned = True
            live = {k2 for k2 in live if not _owned_by(k2, rk)}
        return live

    def refine(self, live, cond, pol):
        c = strip(cond)
        while kind(c) == "un" and c[1] == "!":
            c = strip(c[2])
            pol = not pol
        key = None
        if kind(c) == "bin" and c[1] in ("==", "!="):
            for a, b in ((c[2], c[3]), (c[3], c[2])):
                if is_int(b, 0):
                    key = _key(a)
                    if c[1] == "!=":
                        pol = not pol
                    # now: pol True  <=>  key == NULL
                    if pol:
                        return {k2 for k2 in live if not _owned_by(k2, key)}
                    return live
        elif kind(c) in ("var", "member", "deref"):
            key = _key(c)
            if not pol:   # if (x) false edge: x == NULL
                return {k2 for k2 in live if not _owned_by(k2, key)}
        return live

    def _solve(self):
        fn = self.fn
        order = fn.rpo()
        inn = {b: None for b in order}
        inn[fn.entry] = frozenset()
        work = list(order)
        guard = 0
        while work and guard < 5000:
            guard += 1
            b = work.pop(0)
            if inn[b] is None:
                continue
            live = set(inn[b])
            blk = fn.blocks[b]
            for el in blk.elems:
                if not el.top:
                    continue
                live = self.stmt(live, el)
            for (s, pol) in fn.succ_edges(b):
                if s is None or s not in inn:
                    continue
                e = live
                if pol is not None and blk.cond is not None:
                    e = self.refine(live, blk.cond, pol)
                new = frozenset(e) | (inn[s] or frozenset())
                if inn[s] is None or new != inn[s]:
                    inn[s] = new
                    if s not in work:
                        work.append(s)
        self.inn = inn
        # evaluate returns
        for el in fn.returns():
            if inn.get(el.blk) is None:
                continue
            live = set(inn[el.blk])
            for x in fn.blocks[el.blk].elems:
                if not x.top:
                    continue
                live = self.stmt(live, x)
                if x is el:
                    break
            self.leaks.append((el, sorted(k2 for k2 in live if not k2.startswith("pending:"))))
        # void functions falling off the end
        if fn.ret == "void":
            for p in fn.blocks[fn.exit].preds:
                if inn.get(p) is None:
                    continue
                blk = fn.blocks[p]
                if any(x.top and kind(x.e) == "return" for x in blk.elems):
                    continue
                live = set(inn[p])
                for x in blk.elems:
                    if x.top:
                        live = self.stmt(live, x)
                live = {k2 for k2 in live if not k2.startswith("pending:")}
                if live:
                    self.leaks.append((None, sorted(live)))


def _scope(f):
    return bool(f.blocks) and f.file.startswith("src/") and not f.file.endswith("tests_impl.h") and f.name != "checked_malloc" \
        and not f.file.startswith(("src/bench", "src/tests", "src/testrand", "src/unit_test"))


def allocators(prog):
    """ACQ_HEAP closed over wrappers: a function that returns a block it acquired (on some path) is an allocator for its
    callers, so that moving `malloc + NULL check` into a static helper does not hide the callers' exits from the rule."""
    acq = set(ACQ_HEAP)
    for _ in range(4):
        added = False
        for f in prog.functions.values():
            if not _scope(f) or f.name in acq or "*" not in (f.ret or ""):
                continue
            if not any(callee_name(c) in acq for el, c in f.all_calls()):
                continue
            if Pair(f, acq).returns_owned:
                acq.add(f.name)
                added = True
        if not added:
            break
    return tuple(sorted(acq))


def obligations(prog):
    obs = []
    nfun = 0
    acq_all = allocators(prog)
    for f in sorted(prog.functions.values(), key=lambda x: x.name):
        if not _scope(f):
            continue
        acq = any(callee_name(c) in acq_all + (ACQ_CP,) for el, c in f.all_calls())
        if not acq:
            continue
        nfun += 1
        p = Pair(f, acq_all)
        props = {"C07"}
        if "bppp" in f.file:
            props.add("C19")
        if "surjection" in f.file:
            props.add("C11")
        if f.name.startswith("secp256k1_context"):
            props.add("C20")
        if f.file.startswith("src/ecmult") or f.file.startswith("src/scratch"):
            props.add("C05")
        n = 0
        for el, live in sorted(p.leaks, key=lambda t: int(t[0].loc.rsplit(":", 1)[1]) if t[0] is not None else 10 ** 9):
            n += 1
            loc = el.loc if el is not None else f.loc
            what = ("`%s`" % show(el.e)[:50]) if el is not None else "the end of the function"
            obs.append(Obligation("R-PAIR", "R-PAIR:%s#%d" % (f.name, n), loc, f.name,
                                  "every heap block / scratch checkpoint acquired in %s is released or handed over before %s" % (f.name, what),
                                  not live,
                                  ("nothing live at this exit" if not live else
                                   "still live: %s (acquired at %s)" % (", ".join(live), ", ".join(p.acq_sites.get(k, "?") for k in live))),
                                  props=props))
    if nfun < 6:
        raise AnalysisBroken("R-PAIR: only %d acquiring functions found (floor 6)" % nfun)
    return obs, {"acquiring_functions": nfun, "allocators": [a for a in acq_all if a not in ACQ_HEAP]}


if __name__ == "__main__":
    obs, st = obligations(program("K0"))
    print(st, len(obs))
    for o in obs:
        print("OK  " if o.ok else "VIOL", o.oid, o.loc, o.detail[:150])
