"""sxlib — loader and analyses over the `sx` mini-IR (DESIGN §3.1).

Everything here is static: it reads the JSON facts that engines/sx extracted from
/repo's current working tree with clang, and offers CFG / def-use / dominance /
call-graph queries to the rule modules.
"""
import json
import os
import subprocess
import sys
import hashlib
import time

VERIF = os.path.dirname(os.path.dirname(os.path.abspath(__file__)))
REPO = os.environ.get("VERIF_REPO", "/repo")
WORK = os.environ.get("VERIF_WORK") or os.path.join(VERIF, ".work")
# evidence/ and reports/ live under OUT; the scan tools (rules/scan.py) point it at a scratch directory so that runs
# against seeded / benign variants in scratch worktrees never touch the committed evidence of /repo itself
OUT = os.environ.get("VERIF_OUT") or VERIF

CONFIGS = {
    # id: extra defines (module + table-size defines are shared)
    "K0": ["-DUSE_ASM_X86_64=1"],
    "K1": ["-DUSE_FORCE_WIDEMUL_INT128=1"],
    "K2": ["-DUSE_FORCE_WIDEMUL_INT128_STRUCT=1"],
    "K3": ["-DUSE_FORCE_WIDEMUL_INT64=1"],
}
COMMON_DEFS = (
    "-DCOMB_BLOCKS=43 -DCOMB_TEETH=6 -DECMULT_WINDOW_SIZE=15 -DENABLE_MODULE_BPPP=1 "
    "-DENABLE_MODULE_ECDH=1 -DENABLE_MODULE_ECDSA_ADAPTOR=1 -DENABLE_MODULE_ECDSA_S2C=1 "
    "-DENABLE_MODULE_ELLSWIFT=1 -DENABLE_MODULE_EXTRAKEYS=1 -DENABLE_MODULE_GENERATOR=1 "
    "-DENABLE_MODULE_MUSIG=1 -DENABLE_MODULE_RANGEPROOF=1 -DENABLE_MODULE_SCHNORRSIG=1 "
    "-DENABLE_MODULE_SCHNORRSIG_HALFAGG=1 -DENABLE_MODULE_SURJECTIONPROOF=1 "
    "-DENABLE_MODULE_WHITELIST=1 -DENABLE_MODULE_RECOVERY=1 -DVALGRIND"
).split()


class AnalysisBroken(Exception):
    """An anchor vanished / an engine failed: exit 2, never a pass or a violation."""


def cflags(config, verify=False):
    fl = list(COMMON_DEFS) + CONFIGS[config]
    if verify:
        fl.append("-DVERIFY")
    fl += ["-I" + os.path.join(VERIF, "stubs"), "-I" + os.path.join(REPO, "include"),
           "-I" + os.path.join(REPO, "src"), "-std=c90", "-Wno-everything"]
    return fl


def tree_digest():
    """Digest of the repo sources that feed the analysis (used only to reuse an
    extraction made by another check in the same run, never to skip analysis)."""
    h = hashlib.sha256()
    for root in ("src", "include", "contrib"):
        for dp, dn, fn in os.walk(os.path.join(REPO, root)):
            dn.sort()
            for f in sorted(fn):
                if f.endswith((".c", ".h")):
                    p = os.path.join(dp, f)
                    h.update(p.encode())
                    with open(p, "rb") as fh:
                        h.update(fh.read())
    for f in ("engines/sx.cc", "engines/irx.cc"):
        p = os.path.join(VERIF, f)
        if os.path.exists(p):
            with open(p, "rb") as fh:
                h.update(fh.read())
    return h.hexdigest()[:16]


def extract(config="K0", unit="secp256k1.c", verify=False):
    """Run sx over /repo's current tree; returns path of the JSON."""
    os.makedirs(WORK, exist_ok=True)
    sx = os.path.join(VERIF, "engines", "sx")
    if not os.path.exists(sx):
        raise AnalysisBroken("engines/sx not built (run MANIFEST.setup_cmd)")
    tag = "%s%s.%s.%s" % (config, "v" if verify else "", unit.replace("/", "_"), tree_digest())
    out = os.path.join(WORK, "sx." + tag + ".json")
    if os.path.exists(out) and os.path.getsize(out) > 0:
        return out
    src = os.path.join(REPO, "src", unit)
    tmp = out + ".tmp%d" % os.getpid()
    r = subprocess.run([sx, tmp, src, "--"] + cflags(config, verify),
                       stdout=subprocess.PIPE, stderr=subprocess.PIPE, text=True)
    if r.returncode != 0 or not os.path.exists(tmp):
        raise AnalysisBroken("sx failed on %s (%s): %s" % (unit, config, (r.stderr or r.stdout)[-2000:]))
    os.replace(tmp, out)
    # prune old extractions
    for f in os.listdir(WORK):
        if f.startswith("sx.") and f.endswith(".json") and tree_digest() not in f:
            try:
                os.remove(os.path.join(WORK, f))
            except OSError:
                pass
    return out


# ---------------------------------------------------------------- expressions

def kind(e):
    return e[0] if isinstance(e, list) and e else None


def strip(e):
    """Remove value-preserving wrappers."""
    while isinstance(e, list) and e:
        if e[0] == "narrow":
            e = e[3]
        elif e[0] == "bool":
            e = e[1]
        else:
            break
    return e


def children(e):
    k = kind(e)
    if k is None:
        return []
    if k == "call":
        c = [e[1]] if isinstance(e[1], list) else []
        return c + list(e[3])
    if k in ("int", "var", "gvar", "fn", "ref", "str", "sizeof", "other", "stmt", "float", "offsetof", "stmtexpr", "elided"):
        return []
    if k == "narrow":
        return [e[3]]
    if k == "decay":
        return [e[1]]
    if k == "member":
        return [e[1]]
    if k == "incdec":
        return [e[3]]
    if k in ("un",):
        return [e[2]]
    if k in ("bin", "assign"):
        return [e[2], e[3]]
    if k == "decl":
        return [e[2]] if e[2] is not None else []
    if k == "asm":
        return list(e[1]) + list(e[2])
    return [x for x in e[1:] if isinstance(x, list)]


def walk(e):
    """Pre-order traversal of all sub-expressions."""
    if not isinstance(e, list) or not e:
        return
    stack = [e]
    while stack:
        x = stack.pop()
        if not isinstance(x, list) or not x:
            continue
        yield x
        stack.extend(reversed(children(x)))


def calls_in(e):
    return [x for x in walk(e) if x[0] == "call"]


def callee_name(c):
    return c[1] if isinstance(c[1], str) else None


def vars_in(e):
    return {x[1] for x in walk(e) if x[0] == "var"}


def is_int(e, val=None):
    e = strip(e)
    if kind(e) != "int":
        return False
    return val is None or int(e[1]) == val


def int_val(e):
    e = strip(e)
    return int(e[1]) if kind(e) == "int" else None


def show(e, depth=0):
    """Readable rendering of an expression tree (for reports)."""
    k = kind(e)
    if e is None:
        return "<none>"
    if k is None:
        return str(e)
    if depth > 12:
        return "…"
    s = lambda x: show(x, depth + 1)
    if k == "int":
        return e[1]
    if k in ("var", "gvar", "fn", "ref"):
        return e[1]
    if k == "member":
        b = e[1]
        if kind(b) == "deref":
            return "%s->%s" % (s(b[1]), e[2])
        return "%s.%s" % (s(b), e[2])
    if k == "deref":
        return "*%s" % s(e[1])
    if k == "addr":
        return "&%s" % s(e[1])
    if k == "index":
        return "%s[%s]" % (s(e[1]), s(e[2]))
    if k == "decay":
        return s(e[1])
    if k == "narrow":
        return "(int%d)%s" % (e[2], s(e[3]))
    if k == "bool":
        return s(e[1])
    if k == "un":
        return "%s%s" % (e[1], s(e[2]))
    if k == "incdec":
        return ("%s%s" % (e[1], s(e[3]))) if e[2] else ("%s%s" % (s(e[3]), e[1]))
    if k in ("bin", "assign"):
        return "(%s %s %s)" % (s(e[2]), e[1], s(e[3]))
    if k == "cond":
        return "(%s ? %s : %s)" % (s(e[1]), s(e[2]), s(e[3]))
    if k == "call":
        f = e[1] if isinstance(e[1], str) else "(*%s)" % s(e[1])
        return "%s(%s)" % (f, ", ".join(s(a) for a in e[3]))
    if k == "return":
        return "return %s" % s(e[1])
    if k == "decls":
        return "; ".join(s(d) for d in e[1:])
    if k == "decl":
        return "%s = %s" % (e[1], s(e[2])) if e[2] is not None else e[1]
    if k == "str":
        return json.dumps(e[2])
    if k == "init":
        return "{%s}" % ", ".join(s(x) for x in e[1:])
    return k


def lvalue_root(e):
    """Root variable of an lvalue / pointer expression: x, x.f, x[i], *x, x->f, &x[..], x + k."""
    e = strip(e)
    while True:
        k = kind(e)
        if k in ("var", "gvar"):
            return e
        if k in ("member", "index", "deref", "addr", "decay"):
            e = strip(e[1])
        elif k == "bin" and e[1] in ("+", "-"):
            e = strip(e[2])
        elif k == "incdec":
            e = strip(e[3])
        elif k == "cond":
            return None
        else:
            return None


# ------------------------------------------------------------------ functions

class Elem:
    __slots__ = ("blk", "idx", "loc", "macros", "top", "e")

    def __init__(self, blk, idx, d):
        self.blk = blk
        self.idx = idx
        self.loc = d["loc"]
        self.macros = d["macros"]
        self.top = d["top"]
        self.e = d["e"]

    def __repr__(self):
        return "<%s %s>" % (self.loc, show(self.e))


class Block:
    def __init__(self, d):
        self.id = d["id"]
        self.elems = [Elem(self.id, i, x) for i, x in enumerate(d["elems"])]
        self.term = d["term"]
        self.succs = d["succs"]
        self.preds = []

    @property
    def cond(self):
        return self.term["cond"] if self.term else None


class Function:
    def __init__(self, name, d, prog):
        self.name = name
        self.prog = prog
        self.loc = d["loc"]
        self.file = d["loc"].rsplit(":", 1)[0]
        self.line = int(d["loc"].rsplit(":", 1)[1])
        self.endline = d["endline"]
        self.external = d["external"]
        self.ret = d["ret"]
        self.params = d["params"]
        self.locals = d["locals"]
        self.vars = {v["name"]: v for v in self.params + self.locals}
        self.param_index = {p["name"]: i for i, p in enumerate(self.params)}
        self.blocks = {}
        self.entry = d.get("entry")
        self.exit = d.get("exit")
        for b in d["blocks"] or []:
            self.blocks[b["id"]] = Block(b)
        for b in self.blocks.values():
            for s in b.succs:
                if s is not None and s in self.blocks:
                    self.blocks[s].preds.append(b.id)
        self._dom = None
        self._pdom = None
        self._reach = {}

    # --- iteration
    def elems(self, top_only=True):
        for b in self.blocks.values():
            for el in b.elems:
                if el.top or not top_only:
                    yield el

    def all_calls(self):
        """(elem, call-expr) for every call in the function, each once."""
        seen = set()
        for b in self.blocks.values():
            for el in b.elems:
                if not el.top:
                    continue
                for c in calls_in(el.e):
                    key = (c[2], id(c))
                    if key in seen:
                        continue
                    seen.add(key)
                    yield el, c
            # calls inside a terminator condition are also elements of the block; nothing to add

    def returns(self):
        for el in self.elems():
            if kind(el.e) == "return":
                yield el

    # --- graph
    def succ_edges(self, bid):
        """[(succ, polarity)] polarity True/False for two-way branches, None otherwise."""
        b = self.blocks[bid]
        if b.term and len(b.succs) == 2 and b.term["kind"] != "SwitchStmt":
            return [(b.succs[0], True), (b.succs[1], False)]
        return [(s, None) for s in b.succs]

    def rpo(self):
        seen, order = set(), []
        stack = [(self.entry, iter([s for s in self.blocks[self.entry].succs if s is not None]))]
        seen.add(self.entry)
        while stack:
            n, it = stack[-1]
            adv = False
            for s in it:
                if s not in seen and s in self.blocks:
                    seen.add(s)
                    stack.append((s, iter([x for x in self.blocks[s].succs if x is not None])))
                    adv = True
                    break
            if not adv:
                order.append(n)
                stack.pop()
        order.reverse()
        return order

    def dominators(self):
        if self._dom is not None:
            return self._dom
        order = self.rpo()
        allb = set(order)
        dom = {n: set(allb) for n in order}
        dom[self.entry] = {self.entry}
        changed = True
        while changed:
            changed = False
            for n in order:
                if n == self.entry:
                    continue
                ps = [p for p in self.blocks[n].preds if p in dom]
                new = set(allb)
                for p in ps:
                    new &= dom[p]
                new = new | {n}
                if new != dom[n]:
                    dom[n] = new
                    changed = True
        self._dom = dom
        return dom

    def reachable_from(self, bid, avoid=frozenset()):
        """Blocks reachable from the successors of bid (not bid itself unless on a cycle), never entering `avoid`."""
        key = (bid, avoid)
        if key in self._reach:
            return self._reach[key]
        seen = set()
        stack = [s for s in self.blocks[bid].succs if s is not None and s not in avoid]
        while stack:
            n = stack.pop()
            if n in seen or n not in self.blocks:
                continue
            seen.add(n)
            for s in self.blocks[n].succs:
                if s is not None and s not in seen and s not in avoid:
                    stack.append(s)
        self._reach[key] = seen
        return seen

    def is_loop_block(self, bid):
        return bid in self.reachable_from(bid)


def assigned_var(e):
    """If statement e assigns a plain local/param variable, return (name, op, rhs)."""
    k = kind(e)
    if k == "assign":
        l = strip(e[2])
        if kind(l) == "var":
            return l[1], e[1], e[3]
    if k == "incdec":
        l = strip(e[3])
        if kind(l) == "var":
            return l[1], e[1], None
    return None


def defs_in_elem(el_e):
    """Variables (plain) that the top-level statement defines: list of (name, op, rhs_expr_or_None, via)
    via in {'assign','decl','outparam','incdec'}. Out-parameters: &x passed to a call."""
    out = []
    k = kind(el_e)
    if k == "decls":
        for d in el_e[1:]:
            if d[2] is not None:
                out.append((d[1], "=", d[2], "decl"))
        for d in el_e[1:]:
            if d[2] is not None:
                out.extend(x for x in defs_in_elem(d[2]))
        return out
    for x in walk(el_e):
        a = assigned_var(x)
        if a:
            out.append((a[0], a[1], a[2], "assign" if x[0] == "assign" else "incdec"))
        if x[0] == "call":
            for i, arg in enumerate(x[3]):
                arg = strip(arg)
                if kind(arg) == "addr":
                    r = strip(arg[1])
                    if kind(r) == "var" and not param_is_const_ptr(callee_name(x), i):
                        out.append((r[1], "call", x, "outparam"))
    return out


_SIG = {}
_LIBC_CONST = {("memcpy", 1), ("memmove", 1), ("memcmp", 0), ("memcmp", 1), ("strlen", 0),
               ("secp256k1_memcmp_var", 0), ("secp256k1_memcmp_var", 1)}


def param_is_const_ptr(callee, i):
    """True when the callee's i-th parameter is a pointer to const (the call cannot define *arg)."""
    if callee is None:
        return False
    if (callee, i) in _LIBC_CONST:
        return True
    ps = _SIG.get(callee)
    if ps is None or i >= len(ps):
        return False
    return bool(ps[i].get("ptr") and ps[i].get("pointee_const"))


class Program:
    def __init__(self, path, canon_fe=True):
        with open(path) as f:
            txt = f.read()
        if canon_fe:
            # non-VERIFY builds alias secp256k1_fe_X to secp256k1_fe_impl_X by macro; use the API names
            txt = txt.replace('"secp256k1_fe_impl_', '"secp256k1_fe_')
        d = json.loads(txt)
        self.path = path
        self.functions = {n: Function(n, fd, self) for n, fd in d["functions"].items()}
        self.protos = {p["name"]: p for p in d["protos"]}
        for n, fd in d["functions"].items():
            _SIG[n] = fd["params"]
        self.globals = d["globals"]
        self.structs = d["structs"]
        self._callers = None

    def fn(self, name):
        f = self.functions.get(name)
        if f is None:
            raise AnalysisBroken("anchor function %s not found in the translation unit" % name)
        return f

    def exported(self):
        """Functions with external linkage that are declared in a public header."""
        return [f for n, f in self.functions.items() if f.external and n in self.protos]

    def callers(self):
        if self._callers is None:
            cs = {}
            for f in self.functions.values():
                for el, c in f.all_calls():
                    n = callee_name(c)
                    if n:
                        cs.setdefault(n, []).append((f, el, c))
            self._callers = cs
        return self._callers

    def callgraph(self):
        g = {}
        for f in self.functions.values():
            s = set()
            for el, c in f.all_calls():
                n = callee_name(c)
                if n:
                    s.add(n)
            # functions whose address is taken inside f count as potential callees
            for el in f.elems():
                for x in walk(el.e):
                    if x[0] == "fn" :
                        s.add(x[1])
            g[f.name] = s
        return g

    def reachable_functions(self, root):
        g = self.callgraph()
        seen, st = set(), [root]
        while st:
            n = st.pop()
            if n in seen:
                continue
            seen.add(n)
            st.extend(g.get(n, ()))
        return seen


_prog_cache = {}


def program(config="K0", unit="secp256k1.c", verify=False):
    key = (config, unit, verify)
    if key not in _prog_cache:
        _prog_cache[key] = Program(extract(config, unit, verify), canon_fe=not verify)
        _prog_cache[key].config = config
    return _prog_cache[key]


# ------------------------------------------------------- forward def-use walk

class Use:
    """One read of a tracked variable definition."""
    __slots__ = ("fn", "blk", "elem", "where", "expr", "var")

    def __init__(self, fn, blk, elem, where, expr, var):
        self.fn, self.blk, self.elem, self.where, self.expr, self.var = fn, blk, elem, where, expr, var

    @property
    def loc(self):
        if self.elem is not None:
            return self.elem.loc
        return self.fn.blocks[self.blk].term["loc"]


def _reads(e, var):
    """Does expression e read variable `var` (not merely take its address / assign it)?"""
    for x in walk(e):
        if x[0] == "var" and x[1] == var:
            return True
    return False


def reads_excluding_pure_defs(e, var):
    """True if statement e reads var. `x = ...` (plain assignment) does not read x; `x op= ...` does;
    `&x` passed to a call is treated as a (re)definition, not a read."""
    k = kind(e)
    if k == "assign":
        l = strip(e[2])
        if kind(l) == "var" and l[1] == var:
            if e[1] != "=":
                return True
            return reads_excluding_pure_defs(e[3], var)
        return reads_excluding_pure_defs(e[2], var) or reads_excluding_pure_defs(e[3], var)
    if k == "addr":
        r = strip(e[1])
        if kind(r) == "var" and r[1] == var:
            return False
    if k == "var":
        return e[1] == var
    for c in children(e):
        if reads_excluding_pure_defs(c, var):
            return True
    return False


def kills(e, var):
    """Does top-level statement e (re)define var completely?  (plain '=', or &var out-param)"""
    for name, op, rhs, via in defs_in_elem(e):
        if name == var and (op == "=" or via == "outparam"):
            return True
    return False


def forward_uses(fn, start_blk, start_idx, var):
    """All statements / terminators that may read `var` as defined right after element
    (start_blk, start_idx), following the CFG until the variable is redefined.
    Yields Use objects. `where` is 'elem' or 'term'."""
    uses = []
    seen = set()
    work = [(start_blk, start_idx + 1)]
    while work:
        bid, idx = work.pop()
        if (bid, idx) in seen:
            continue
        seen.add((bid, idx))
        b = fn.blocks[bid]
        killed = False
        for el in b.elems[idx:]:
            if not el.top:
                continue
            if reads_excluding_pure_defs(el.e, var):
                uses.append(Use(fn, bid, el, "elem", el.e, var))
            if kills(el.e, var):
                killed = True
                break
        if killed:
            continue
        if b.term and b.cond is not None and _reads(b.cond, var):
            uses.append(Use(fn, bid, None, "term", b.cond, var))
        for s in b.succs:
            if s is not None:
                work.append((s, 0))
    # de-duplicate
    out, k = [], set()
    for u in uses:
        key = (u.blk, u.elem.idx if u.elem else -1, u.where)
        if key not in k:
            k.add(key)
            out.append(u)
    return out


def occurs_in_verdict_position(e, var):
    """var occurs in e through value operators only (! ~ & | ^ && || == != ?: casts), i.e. not as
    an argument of a call and not under an address-of."""
    e = strip(e)
    k = kind(e)
    if k == "var":
        return e[1] == var
    if k == "un":
        return occurs_in_verdict_position(e[2], var)
    if k == "bin":
        return occurs_in_verdict_position(e[2], var) or occurs_in_verdict_position(e[3], var)
    if k == "cond":
        return any(occurs_in_verdict_position(x, var) for x in e[1:4])
    return False


def find_elem(fn, call):
    """Locate the top-level element that contains the call expression object."""
    for b in fn.blocks.values():
        for el in b.elems:
            if el.top:
                for c in walk(el.e):
                    if c is call:
                        return el
    return None


def term_of_cond_elem(fn, el):
    """If element el is the last element of its block and the block has a conditional terminator
    whose condition is this expression, return the block."""
    b = fn.blocks[el.blk]
    if b.term and b.elems and b.elems[-1] is el and b.cond is not None:
        return b
    return None


# ------------------------------------------------------------ evidence output

def write_evidence(pid, tier, level, coverage, assumptions, wall, violations):
    os.makedirs(os.path.join(OUT, "evidence"), exist_ok=True)
    ev = {
        "property_id": pid,
        "tier": tier,
        "seed": int(os.environ.get("VERIF_SEED", "0") or 0),
        "level": level,
        "coverage": coverage,
        "assumptions": assumptions,
        "wall_s": round(wall, 3),
        "violations": violations,
    }
    p = os.path.join(OUT, "evidence", pid + ".json")
    with open(p + ".tmp", "w") as f:
        json.dump(ev, f, indent=1)
    os.replace(p + ".tmp", p)
    return p
