"""R-GLOB / R-EFF / R-ALLOC — state and effects (C20), DESIGN §4.

R-GLOB  every object with static storage duration defined in the library's translation units is const
        (named exceptions with reasons); cross-checked against the symbol table of the objects compiled
        from the current tree (no writable data / bss symbols beyond the exceptions).
R-EFF   (engine irx, symbolic roots) no exported function whose context parameter is const-qualified
        writes the context object or any global on any path.
R-ALLOC the only allocations reachable from exported functions are the documented ones, and context
        creation / cloning reaches exactly one checked_malloc call site outside any loop.
"""
import json
import os
import re
import subprocess
import time
from concurrent.futures import ThreadPoolExecutor

import irbuild
import sxlib
from sxlib import AnalysisBroken, VERIF, WORK, REPO, callee_name
from core import Obligation, load_table

PROPS = {"C20"}
IRX = os.path.join(VERIF, "engines", "irx")
UNITS = ("secp256k1.c", "precomputed_ecmult.c", "precomputed_ecmult_gen.c")


# ------------------------------------------------------------------ R-GLOB
def glob_obligations(config="K0"):
    exc = load_table("glob_exceptions.json")
    obs = []
    used = set()
    n = 0
    for unit in UNITS:
        p = sxlib.Program(sxlib.extract(config, unit), canon_fe=False)
        for g in p.globals:
            if not g["defined"]:
                continue
            if not g["loc"].startswith("src/"):
                continue
            n += 1
            name = g["name"] if not g["static_local_of"] else "%s.%s" % (g["static_local_of"], g["name"])
            oid = "R-GLOB:%s:%s" % (unit, name)
            text = "static-storage object %s (%s) must be const: the library keeps no mutable global state" % (name, g["type"])
            if g["const"]:
                obs.append(Obligation("R-GLOB", oid, g["loc"], name, text, True, "const-qualified", props=PROPS))
            elif name in exc:
                used.add(name)
                obs.append(Obligation("R-GLOB", oid, g["loc"], name, text, True, "not const; named exception", exception=exc[name], props=PROPS))
            else:
                obs.append(Obligation("R-GLOB", oid, g["loc"], name, text, False,
                                      "mutable object with static storage duration%s: hidden state shared by every caller and thread"
                                      % ((" inside " + g["static_local_of"]) if g["static_local_of"] else ""), props=PROPS))
    stale = sorted(set(exc) - used - {"_comment"})
    if stale:
        raise AnalysisBroken("R-GLOB: exception entries match no object any more: %s" % ", ".join(stale))
    obs += object_crosscheck(config, exc)
    return obs, {"static_objects": n}


def object_crosscheck(config, exc):
    """Compile the units from the current tree and inspect the objects: writable sections must hold only the exceptions."""
    tmpd = os.path.join(WORK, "objx.%d" % os.getpid())
    os.makedirs(tmpd, exist_ok=True)
    obs = []
    try:
        flags = [f for f in sxlib.cflags(config)]
        procs = []
        for u in UNITS:
            o = os.path.join(tmpd, u.replace(".c", ".o"))
            cmd = ["clang-14"] + flags + ["-O1", "-fPIC", "-c", os.path.join(REPO, "src", u), "-o", o]
            procs.append((u, o, subprocess.Popen(cmd, stdout=subprocess.PIPE, stderr=subprocess.PIPE, text=True)))
        for u, o, p in procs:
            out, err = p.communicate()
            if p.returncode != 0:
                raise AnalysisBroken("cannot compile %s for the object cross-check: %s" % (u, err[-800:]))
            secs = {}
            r = subprocess.run(["readelf", "-SW", o], stdout=subprocess.PIPE, text=True)
            for line in r.stdout.splitlines():
                m = re.match(r"\s*\[\s*(\d+)\]\s+(\S+)\s+(\S+)\s+[0-9a-f]+\s+[0-9a-f]+\s+([0-9a-f]+)\s+[0-9a-f]+\s+([A-Za-z]*)\s", line)
                if m:
                    secs[m.group(1)] = (m.group(2), m.group(5), int(m.group(4), 16))
            writable = []
            r = subprocess.run(["readelf", "-sW", o], stdout=subprocess.PIPE, text=True)
            for line in r.stdout.splitlines():
                parts = line.split()
                if len(parts) >= 8 and parts[3] in ("OBJECT", "TLS", "COMMON"):
                    ndx = parts[6]
                    sec = secs.get(ndx, ("COM" if ndx == "COM" else "?", "W" if ndx == "COM" else "", 0))
                    if "W" in sec[1] and not sec[0].startswith(".data.rel.ro"):
                        sym = parts[7]
                        writable.append((sym, re.sub(r"\.\d+$", "", sym), sec[0], int(parts[2])))
            bad = [w for w in writable if w[1] not in exc and not any(w[1] == e.split(".")[-1] for e in exc)]
            oid = "R-GLOB:object:%s" % u
            text = "the object compiled from %s has no writable data / bss symbols beyond the named exceptions" % u
            if bad:
                obs.append(Obligation("R-GLOB", oid, "src/" + u, u, text, False,
                                      "writable symbols: " + ", ".join("%s (%s, %d bytes)" % (w[0], w[2], w[3]) for w in bad[:6]), props=PROPS))
            else:
                obs.append(Obligation("R-GLOB", oid, "src/" + u, u, text, True,
                                      "writable symbols: %s" % (", ".join(w[0] for w in writable) or "none"), props=PROPS))
    finally:
        subprocess.run(["rm", "-rf", tmpd])
    return obs


# ------------------------------------------------------------------ R-EFF
def _irx(ll, args, timeout=900):
    jo = os.path.join(WORK, "eff.%d.%s.json" % (os.getpid(), abs(hash(tuple(args)))))
    try:
        r = subprocess.run([IRX, ll] + args + ["--json", jo], stdout=subprocess.PIPE, stderr=subprocess.PIPE, text=True, timeout=timeout)
        if r.returncode != 0 or not os.path.exists(jo):
            raise AnalysisBroken("irx failed (%s): %s" % (" ".join(args), (r.stderr or r.stdout)[-800:]))
        with open(jo) as f:
            return json.load(f)
    finally:
        if os.path.exists(jo):
            os.remove(jo)


def eff_fixture():
    ll = os.path.join(WORK, "eff_fixture.%d.ll" % os.getpid())
    src = os.path.join(VERIF, "fixtures", "eff_fixture.c")
    r = subprocess.run(["clang-14", "-O0", "-Xclang", "-disable-O0-optnone", "-g", "-S", "-emit-llvm", src, "-o", ll],
                       stdout=subprocess.PIPE, stderr=subprocess.PIPE, text=True)
    if r.returncode != 0:
        raise AnalysisBroken("cannot compile eff_fixture.c: " + r.stderr[-400:])
    try:
        d1 = _irx(ll, ["--sym", "fixture_dirty"])
        d2 = _irx(ll, ["--sym", "fixture_clean"])
    finally:
        os.remove(ll)
    cls = sorted(e["class"] for e in d1["effects"])
    if cls != ["context", "global"] or d2["effects"]:
        raise AnalysisBroken("R-EFF positive control failed: dirty -> %s, clean -> %s" % (d1["effects"], d2["effects"]))
    return 2


def eff_obligations(config="K0"):
    if not os.path.exists(IRX):
        raise AnalysisBroken("engines/irx not built")
    eff_fixture()
    prog = sxlib.program(config)
    roots = [f for f in prog.exported() if f.params and f.params[0].get("pointee_canon") == "struct secp256k1_context_struct"
             and f.params[0].get("pointee_const")]
    if len(roots) < 100:
        raise AnalysisBroken("R-EFF: only %d exported const-context functions found (floor 100)" % len(roots))
    ll = irbuild.build(config, units=("secp256k1.c",))
    def one(f):
        return f, _irx(ll, ["--sym", f.name])
    obs = []
    tot_exec = 0
    opaque = set()
    with ThreadPoolExecutor(max_workers=14) as ex:
        for f, d in ex.map(one, roots):
            tot_exec += d["executions"]
            opaque |= set(d["unknown_externals"])
            oid = "R-EFF:%s" % f.name
            text = "%s takes a const context: it must not write the context object or any global on any path" % f.name
            if d["effects"]:
                e = d["effects"][0]
                obs.append(Obligation("R-EFF", oid, e["where"].replace(REPO + "/", ""), f.name, text, False,
                                      "store into %s %s at %s in %s; call chain %s" % (e["class"], e["object"], e["where"].replace(REPO + "/", ""), e["function"], e["chain"].strip(" >")),
                                      props=PROPS))
            else:
                obs.append(Obligation("R-EFF", oid, f.loc, f.name, text, True,
                                      "no store into the context or a global in %d abstract function executions (all paths, symbolic arguments)" % d["executions"], props=PROPS))
    return obs, {"roots": len(roots), "abstract_executions": tot_exec, "opaque_indirect_calls": sorted(opaque)}


# ------------------------------------------------------------------ R-ALLOC
ALLOC_FUNCS = ("malloc", "calloc", "realloc")


def alloc_obligations(config="K0"):
    prog = sxlib.program(config)
    allowed = load_table("alloc_allowed.json")
    g = prog.callgraph()
    # direct allocation sites
    sites = {}
    for f in prog.functions.values():
        for el, c in f.all_calls():
            if callee_name(c) in ALLOC_FUNCS:
                sites.setdefault(f.name, []).append(c[2])
    allocators = set(sites)
    obs = []
    used = set()
    # which exported functions reach an allocator
    for f in sorted(prog.exported(), key=lambda x: x.name):
        reach = prog.reachable_functions(f.name) & allocators
        if not reach:
            continue
        oid = "R-ALLOC:%s" % f.name
        text = "%s may allocate only if it is a documented allocator" % f.name
        if f.name in allowed:
            used.add(f.name)
            obs.append(Obligation("R-ALLOC", oid, f.loc, f.name, text, True, "documented allocator: " + allowed[f.name], props=PROPS | {"C07"}))
        else:
            obs.append(Obligation("R-ALLOC", oid, f.loc, f.name, text, False,
                                  "reaches an allocation in %s (%s)" % (", ".join(sorted(reach)), ", ".join(sites[sorted(reach)[0]])), props=PROPS | {"C07"}))
    stale = sorted(set(allowed) - used - {"_comment"})
    if stale:
        raise AnalysisBroken("R-ALLOC: documented allocators that no longer allocate: %s" % ", ".join(stale))
    # context creation: exactly one checked_malloc call site, not in a loop
    for fname in ("secp256k1_context_create", "secp256k1_context_clone"):
        f = prog.fn(fname)
        calls = [(el, c) for el, c in f.all_calls() if callee_name(c) == "checked_malloc"]
        sub = [c for fn2 in (prog.reachable_functions(fname) - {fname}) if fn2 in prog.functions
               for el, c in prog.functions[fn2].all_calls() if callee_name(c) in ALLOC_FUNCS + ("checked_malloc",) and fn2 != "checked_malloc"]
        ok = len(calls) == 1 and not sub and not f.is_loop_block(calls[0][0].blk)
        obs.append(Obligation("R-ALLOC", "R-ALLOC:one:%s" % fname, f.loc, fname,
                              "%s performs exactly one allocation" % fname, ok,
                              "%d checked_malloc call sites in the function, %d further allocation sites in its callees%s"
                              % (len(calls), len(sub), "" if not calls or not f.is_loop_block(calls[0][0].blk) else "; inside a loop"), props=PROPS))
    return obs, {"allocation_sites": sum(len(v) for v in sites.values())}


if __name__ == "__main__":
    for fn in (glob_obligations, alloc_obligations, eff_obligations):
        t = time.time()
        obs, st = fn("K0")
        print(fn.__name__, st, "%.1fs" % (time.time() - t), len(obs), "obligations")
        for o in obs:
            if not o.ok or o.exception:
                print("  ", "EXC " if o.ok else "VIOL", o.oid, o.loc, o.detail)
