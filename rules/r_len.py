"""R-LEN and R-SIZE (DESIGN §4).

R-LEN   in the listed parsers / verifiers the caller's length is pinned by equalities: every accepting return is
        dominated by at least the frozen number of equality constraints (`!=` taken false, `==` taken true) that
        mention the length.  Weakening `!=` to `<` (trailing bytes accepted) removes one.
R-SIZE  in size-negotiating serializers the rejection threshold `*len < E1` is strict and uses the same linear
        expression that is finally stored, `*len = E2` (E1 == E2 as linear forms).
"""
from sxlib import *
from r_inb import Lin, lin
from core import Obligation

# (function, length variable (param name, or a local such as sigend), minimum number of equality constraints, properties)
LEN_INSTANCES = [
    ("secp256k1_ecdsa_sig_parse", "sigend", 2, {"C03", "C07"}),
    ("secp256k1_rangeproof_verify_impl", "plen", 1, {"C10", "C07"}),
    ("secp256k1_surjectionproof_parse", "inputlen", 1, {"C11", "C07"}),
    ("secp256k1_whitelist_signature_parse", "input_len", 1, {"C16", "C07"}),
    ("secp256k1_schnorrsig_aggverify", "aggsig_len", 2, {"C17", "C07"}),
    ("secp256k1_bppp_rangeproof_norm_product_verify", "proof_len", 1, {"C19", "C07"}),
    ("secp256k1_bppp_generators_parse", "data_len", 1, {"C19", "C07"}),
    ("secp256k1_eckey_pubkey_parse", "size", 1, {"C03", "C07"}),
    # caller-supplied element counts that must equal the count stored in the object
    ("secp256k1_whitelist_verify", "n_keys", 1, {"C16"}),
    ("secp256k1_surjectionproof_verify", "n_ephemeral_input_tags", 1, {"C11"}),
    ("secp256k1_surjectionproof_generate", "n_ephemeral_input_tags", 1, {"C11"}),
]

# (function, pointer-to-length param, properties)
SIZE_INSTANCES = [
    ("secp256k1_ecdsa_sig_serialize", "size", {"C03"}),
    ("secp256k1_surjectionproof_serialize", "outputlen", {"C11"}),
    ("secp256k1_whitelist_signature_serialize", "output_len", {"C16"}),
    ("secp256k1_bppp_generators_serialize", "data_len", {"C19"}),
]


# serializers documented to report the needed size when the buffer is too small (include/secp256k1.h, serialize_der)
REPORT_ON_REJECT = ("secp256k1_ecdsa_sig_serialize",)


def _norm_cond(cond, pol):
    c = strip(cond)
    while kind(c) == "un" and c[1] == "!":
        c = strip(c[2])
        pol = not pol
    if kind(c) == "bin" and c[1] in ("<", ">", "<=", ">=", "==", "!="):
        op = c[1]
        if not pol:
            op = {"<": ">=", ">": "<=", "<=": ">", ">=": "<", "==": "!=", "!=": "=="}[op]
        return op, c[2], c[3]
    return None


def _dominating_edges(fn, blk):
    """[(guard block, polarity taken)] for two-way branches that dominate blk with exactly one edge leading to it."""
    dom = fn.dominators()
    out = []
    for d in dom.get(blk, ()):
        b = fn.blocks[d]
        if d == blk or b.cond is None or len(b.succs) != 2:
            continue
        pols = [pol for (s, pol) in fn.succ_edges(d) if s is not None and (s == blk or s in dom.get(blk, ()))]
        if len(pols) == 1 and pols[0] is not None:
            out.append((b, pols[0]))
    return out


def _accepting_returns(fn):
    for el in fn.returns():
        e = el.e[1]
        if e is None or is_int(e, 0) or "ARG_CHECK" in el.macros:
            continue
        yield el


def len_obligations(prog):
    obs = []
    for (fname, lv, need, props) in LEN_INSTANCES:
        f = prog.fn(fname)
        if lv not in f.vars:
            raise AnalysisBroken("R-LEN: %s has no variable %s any more" % (fname, lv))
        n = 0
        for el in sorted(_accepting_returns(f), key=lambda e: int(e.loc.rsplit(":", 1)[1])):
            eqs = []
            for (b, pol) in _dominating_edges(f, el.blk):
                nc = _norm_cond(b.cond, pol)
                # single-assignment locals stand for their definition (`n_chunks = aggsig_len / 32`)
                if nc and nc[0] == "==" and (lv in vars_in(nc[1]) or lv in vars_in(nc[2]) or
                                             lv in vars_in(_resolve(f, nc[1])) or lv in vars_in(_resolve(f, nc[2]))):
                    eqs.append("`%s` (%s) at %s" % (show(b.cond), "true" if pol else "false", b.term["loc"]))
            n += 1
            ok = len(eqs) >= need
            obs.append(Obligation("R-LEN", "R-LEN:%s:%s#%d" % (fname, lv, n), el.loc, fname,
                                  "the accepting `%s` must be dominated by at least %d equality constraint(s) on %s (exact length, no trailing bytes)" % (show(el.e)[:50], need, lv),
                                  ok, "%d equality constraint(s): %s" % (len(eqs), "; ".join(eqs) or "none — the length is bounded by inequalities only"), props=props))
        if n == 0:
            raise AnalysisBroken("R-LEN: %s has no accepting return" % fname)
    return obs, {"instances": len(LEN_INSTANCES)}


def _resolve(fn, e, depth=0):
    """Substitute single-assignment locals so that E1 and E2 can be compared as linear forms."""
    e = strip(e)
    if depth > 6:
        return e
    if kind(e) == "var" and e[1] not in fn.param_index:
        defs = []
        for el in fn.elems():
            for (n, op, rhs, via) in defs_in_elem(el.e):
                if n == e[1]:
                    defs.append((op, rhs, via))
        if len(defs) == 1 and defs[0][0] == "=" and defs[0][2] in ("assign", "decl") and defs[0][1] is not None:
            return _resolve(fn, defs[0][1], depth + 1)
        return e
    if kind(e) == "bin":
        return ["bin", e[1], _resolve(fn, e[2], depth + 1), _resolve(fn, e[3], depth + 1)]
    return e


def size_obligations(prog):
    obs = []
    for (fname, lp, props) in SIZE_INSTANCES:
        f = prog.fn(fname)
        if lp not in f.param_index:
            raise AnalysisBroken("R-SIZE: %s has no parameter %s any more" % (fname, lp))
        def is_len(x):
            x = strip(x)
            return kind(x) == "deref" and kind(strip(x[1])) == "var" and strip(x[1])[1] == lp
        # thresholds: conditions comparing *lp with E (as written, before polarity)
        thr = []
        for b in f.blocks.values():
            if b.cond is None:
                continue
            c = strip(b.cond)
            neg = False
            for _ in range(4):
                while kind(c) == "un" and c[1] == "!":
                    c = strip(c[2])
                    neg = not neg
                if kind(c) != "var":
                    break
                # `fits = (*size >= total); ...; if (!fits)`: a flag with a single definition stands for its comparison
                ds = [rhs for el in f.elems() for (n, op_, rhs, via) in defs_in_elem(el.e) if n == c[1]]
                if len(ds) != 1 or ds[0] is None:
                    break
                c = strip(ds[0])
            if kind(c) == "bin" and c[1] in ("<", "<=", ">", ">=") and (is_len(c[2]) or is_len(c[3])):
                op, L, R = c[1], c[2], c[3]
                if is_len(R):
                    op = {"<": ">", ">": "<", "<=": ">=", ">=": "<="}[op]
                    L, R = R, L
                if neg:
                    op = {"<": ">=", ">": "<=", "<=": ">", ">=": "<"}[op]
                # normalise to the rejecting form "*len < E" (reject) or accepting "*len >= E"
                thr.append((op, R, b))
        stores = []
        for el in f.elems():
            for x in walk(el.e):
                if x[0] == "assign" and x[1] == "=" and is_len(x[2]):
                    stores.append((el, x[3]))
        oid = "R-SIZE:%s:%s" % (fname, lp)
        text = "the buffer-size threshold `*%s < E` must be strict and use the same E that is stored into *%s" % (lp, lp)
        if not thr or not stores:
            obs.append(Obligation("R-SIZE", oid, f.loc, fname, text, False,
                                  "%d threshold comparison(s) and %d store(s) of *%s found" % (len(thr), len(stores), lp), props=props))
            continue
        final = [s for s in stores if not is_int(s[1], 0)]
        av = {}
        ok = True
        det = []
        for (op, E1, b) in thr:
            l1 = lin(_resolve(f, E1), av)
            # is the condition the rejecting branch (`<`) or the accepting one (`>=`)?
            strict_ok = op in ("<", ">=")
            match = any((lin(_resolve(f, E2), av).add(l1, -1).c == 0 and not lin(_resolve(f, E2), av).add(l1, -1).a) for (_, E2) in final)
            det.append("`%s` at %s: %s, %s" % (show(b.cond), b.term["loc"], "strict" if strict_ok else "NOT strict (off by one)",
                                              "same expression as the stored size" if match else "DIFFERS from the stored size %s" % ", ".join(show(s[1]) for s in final)))
            ok = ok and strict_ok and match
        obs.append(Obligation("R-SIZE", oid, thr[0][2].term["loc"], fname, text, ok, "; ".join(det), props=props))
        if fname in REPORT_ON_REJECT:
            # the too-small branch must store the needed size before returning 0
            rep_ok, where = False, "no rejecting branch found"
            for (op, E1, b) in thr:
                for (s, pol) in f.succ_edges(b.id):
                    if s is None:
                        continue
                    rej = (pol is True and op == "<") or (pol is False and op == ">=")
                    if not rej:
                        continue
                    sb = f.blocks[s]
                    has_ret0 = any(e2.top and kind(e2.e) == "return" and is_int(e2.e[1], 0) for e2 in sb.elems)
                    # stores in the rejecting block itself, or in a block that dominates it (size reported before the test)
                    doms = f.dominators().get(s, {s})
                    st = [x for d_ in doms for e2 in f.blocks[d_].elems if e2.top for x in walk(e2.e) if x[0] == "assign" and x[1] == "=" and is_len(x[2])]
                    if has_ret0:
                        l1 = lin(_resolve(f, E1), av)
                        rep_ok = any(not lin(_resolve(f, x[3]), av).add(l1, -1).a and lin(_resolve(f, x[3]), av).add(l1, -1).c == 0 for x in st)
                        where = "rejecting block at %s stores %s" % (sb.elems[0].loc if sb.elems else "?", ", ".join(show(x) for x in st) or "nothing into *%s" % lp)
            obs.append(Obligation("R-SIZE", oid + ":report", thr[0][2].term["loc"], fname,
                                  "when the buffer is too small the needed size must be stored into *%s before returning 0" % lp, rep_ok, where, props=props))
    return obs, {"instances": len(SIZE_INSTANCES)}


if __name__ == "__main__":
    prog = program("K0")
    for fn_ in (len_obligations, size_obligations):
        obs, st = fn_(prog)
        print(fn_.__name__, st)
        for o in obs:
            print("  ", "OK  " if o.ok else "VIOL", o.oid, o.loc, o.detail[:200])
