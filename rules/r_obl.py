"""R-OBL and R-RED — decode obligations and "who may reduce" (DESIGN §4).

R-OBL: tables/obligations.json lists, per exported function and parameter, the
decoder / validity-predicate kinds that must consume what that parameter points
to (at the recorded byte offset, interprocedurally through static helpers).
The table was generated from the tree (./check --regen-obligations), reviewed
against the property statements and frozen.  A listed (function, parameter,
offset, kind) that the parameter-rooted value flow (pflow) no longer finds is a
violation: the check was deleted together with its call, or the bytes no longer
reach it.

R-RED: a *reducing* decode (scalar_set_b32 with a NULL overflow pointer,
fe_set_b32_mod) of bytes rooted in a raw `unsigned char *` parameter of an
exported function is legal only for the (function, parameter, offset) roles
listed in tables/red_roles.json (messages, ElligatorSwift encodings, values the
specification defines modulo n).  Anything else must use the checked form.
"""
from sxlib import *
from pflow import pflow
from core import Obligation, load_table, props_of_function

OBL_KINDS = ("sc_checked", "seckey", "fe_checked", "curve", "subgroup", "sc_zero_test", "sc_high_test",
             "infinity_test", "zero_array_test")
RED_KINDS = ("sc_reduced", "fe_reduced")

KIND_TEXT = {
    "sc_checked": "a range-checked scalar decode (secp256k1_scalar_set_b32 with an overflow flag)",
    "seckey": "the secret-key decode secp256k1_scalar_set_b32_seckey (rejects 0 and >= n)",
    "fe_checked": "a range-checked field decode (secp256k1_fe_set_b32_limit)",
    "curve": "a curve-membership test (ge_set_xo_var / ge_set_xquad / ge_x_on_curve_var / ge_is_valid_var)",
    "subgroup": "the subgroup test secp256k1_ge_is_in_correct_subgroup",
    "sc_zero_test": "a zero test of the decoded scalar",
    "sc_high_test": "the high-S test of the decoded scalar",
    "infinity_test": "an infinity test of the decoded point",
    "zero_array_test": "an all-zero test of the bytes",
    "fe_zero_test": "a zero test of the decoded field element (opaque-object validity)",
}


def current(prog):
    pf = pflow(prog)
    cur = {}
    for f in prog.exported():
        for j, s in pf.summary(f.name).items():
            pname = f.params[j]["name"]
            prm = f.params[j]
            if prm.get("ptr") and not prm.get("pointee_const") and "unsigned char" not in prm["type"]:
                continue   # struct outputs are not inputs to be validated
            for (o, k, loc) in s:
                cur.setdefault((f.name, pname, k), {}).setdefault(o, []).append(loc)
    return cur


def _fn_of_loc(prog, loc):
    file, line = loc.rsplit(":", 1)
    line = int(line)
    best = None
    for f in prog.functions.values():
        if f.blocks and f.file == file:
            l0 = int(f.loc.rsplit(":", 1)[1])
            if l0 <= line and (best is None or l0 > best[0]):
                best = (l0, f.name)
    return best[1] if best else None


def _same_fn_after(prog, decode_loc, test_loc):
    return _fn_of_loc(prog, decode_loc) == _fn_of_loc(prog, test_loc) and int(test_loc.rsplit(":", 1)[1]) >= int(decode_loc.rsplit(":", 1)[1])


def regen(prog):
    cur = current(prog)
    table = []
    for (fn, p, k), offs in sorted(cur.items()):
        if k not in OBL_KINDS:
            continue
        for o in sorted(offs, key=lambda x: (-1 if x is None else x)):
            table.append({"function": fn, "param": p, "offset": o, "kind": k})
    return table


def obligations(prog):
    table = load_table("obligations.json")
    cur = current(prog)
    obs = []
    table_keys = {(e["function"], e["param"], e["offset"], e["kind"]) for e in table["entries"]}
    for ent in table["entries"]:
        fn, p, o, k = ent["function"], ent["param"], ent["offset"], ent["kind"]
        f = prog.functions.get(fn)
        if f is None:
            raise AnalysisBroken("R-OBL: exported function %s (tables/obligations.json) vanished" % fn)
        if p not in f.param_index:
            raise AnalysisBroken("R-OBL: parameter %s of %s (tables/obligations.json) vanished" % (p, fn))
        offs = cur.get((fn, p, k), {})

        def sat(kk):
            oo = cur.get((fn, p, kk), {})
            return (o in oo) or (None in oo) or (o is None and len(oo) > 0)
        ok = sat(k)
        # secp256k1_scalar_set_b32_seckey(&s, b) is by definition set_b32(&s, b, &overflow) followed by the overflow test and
        # the zero test of the decoded scalar.  One spelling discharges the other's obligations only where that really is
        # the same predicate:
        #  - `sc_checked` / `sc_zero_test` by `seckey` when the reviewed tree rejected zero here too (otherwise the seckey
        #    decode is *stricter* and would reject a zero tweak the specification accepts);
        #  - `seckey` by `sc_checked` + a zero test in the same function, after the decode (a zero test of the *sum* inside a
        #    tweak helper is not a zero test of the key).
        had_zero = (fn, p, o, "sc_zero_test") in table_keys or (fn, p, None, "sc_zero_test") in table_keys or (fn, p, o, "seckey") in table_keys
        if not ok and k == "sc_zero_test" and sat("seckey"):
            ok, offs = True, cur.get((fn, p, "seckey"), {})
        if not ok and k == "sc_checked" and sat("seckey") and had_zero:
            ok, offs = True, cur.get((fn, p, "seckey"), {})
        if not ok and k == "seckey" and sat("sc_checked") and sat("sc_zero_test"):
            dl = [l for ll in cur.get((fn, p, "sc_checked"), {}).values() for l in ll]
            zl = [l for ll in cur.get((fn, p, "sc_zero_test"), {}).values() for l in ll]
            if any(_same_fn_after(prog, a, b) for a in dl for b in zl):
                ok, offs = True, cur.get((fn, p, "sc_checked"), {})
        oid = "R-OBL:%s:%s@%s:%s" % (fn, p, "*" if o is None else o, k)
        where = "%s[%s]" % (p, "*" if o is None else o)
        text = "data of %s must be consumed by %s" % (where, KIND_TEXT[k])
        if ok:
            locs = offs.get(o) or offs.get(None) or sorted(offs.values())[0]
            obs.append(Obligation("R-OBL", oid, f.loc, fn, text, True, "consumed at %s" % ", ".join(sorted(set(locs))[:3])))
        else:
            have = sorted({kk for (f2, p2, kk) in cur if f2 == fn and p2 == p})
            obs.append(Obligation("R-OBL", oid, f.loc, fn, text, False,
                                  "no such consumer is reachable from %s any more (kinds still reaching %s: %s)" % (fn, p, ", ".join(have) or "none")))
    return obs, {"table_entries": len(table["entries"]), "exported_functions": len(prog.exported())}


def red_obligations(prog):
    roles = load_table("red_roles.json")
    cur = current(prog)
    obs = []
    used = set()
    for (fn, p, k), offs in sorted(cur.items()):
        if k not in RED_KINDS:
            continue
        f = prog.functions[fn]
        prm = f.params[f.param_index[p]]
        if "unsigned char" not in prm["type"]:
            continue   # library-produced opaque objects may be re-decoded by reduction
        for o, locs in sorted(offs.items(), key=lambda x: (-1 if x[0] is None else x[0])):
            key = "%s:%s@%s" % (fn, p, "*" if o is None else o)
            oid = "R-RED:%s:%s" % (key, k)
            text = "raw caller bytes %s[%s] may be decoded by reduction (%s) only in a listed role" % (p, "*" if o is None else o, k)
            same_param = [r for r in roles if r.startswith("%s:%s@" % (fn, p))]
            if key in roles:
                used.add(key)
                obs.append(Obligation("R-RED", oid, locs[0], fn, text, True, "role: " + roles[key]))
            elif o is None and same_param:
                # the offset is not resolved (the buffer was selected through a table or a conditional): the parameter's
                # listed roles cover it, and they count as still exercised
                used.update(same_param)
                obs.append(Obligation("R-RED", oid, locs[0], fn, text, True, "offset not resolved; roles of the parameter: " + ", ".join(sorted(same_param))))
            else:
                obs.append(Obligation("R-RED", oid, locs[0], fn, text, False,
                                      "reducing decode at %s of bytes rooted in parameter %s of %s, which has no listed role; use the overflow-checked form"
                                      % (", ".join(sorted(set(locs))), p, fn)))
    # a listed role whose bytes are no longer decoded by reduction: the specification makes every such string valid
    # (messages >= n, ElligatorSwift encodings, values defined modulo n), so range-checking or dropping the decode deviates
    for key in sorted(set(roles) - used - {"_comment"}):
        fn, rest = key.split(":", 1)
        f = prog.functions.get(fn)
        if f is None:
            raise AnalysisBroken("R-RED: function %s of the role table vanished" % fn)
        p, off = rest.split("@")
        kinds = sorted({k2 for (f2, p2, k2) in cur if f2 == fn and p2 == p})
        obs.append(Obligation("R-RED", "R-RED:%s:reduced" % key, f.loc, fn,
                              "bytes %s[%s] must keep being decoded by reduction: %s" % (p, off, roles[key]), False,
                              "no reducing decode of %s[%s] is reachable from %s any more (kinds now reaching %s: %s) — values >= the modulus would be rejected or mis-handled"
                              % (p, off, fn, p, ", ".join(kinds) or "none")))
    return obs, {"roles": len(roles) - 1}


if __name__ == "__main__":
    import sys, json
    prog = program("K0")
    if len(sys.argv) > 1 and sys.argv[1] == "regen":
        t = regen(prog)
        json.dump({"_comment": "R-OBL decode obligations: generated by `python3 rules/r_obl.py regen` from the tree, reviewed, frozen. offset null = variable offset.",
                   "entries": t}, open(os.path.join(VERIF, "tables", "obligations.json"), "w"), indent=0)
        print(len(t), "entries")
    elif len(sys.argv) > 1 and sys.argv[1] == "regen-red":
        cur = current(prog)
        out = {"_comment": "R-RED roles: raw-byte parameters that may legitimately be decoded by reduction. key = function:param@offset"}
        for (fn, p, k), offs in sorted(cur.items()):
            if k in RED_KINDS and "unsigned char" in prog.functions[fn].params[prog.functions[fn].param_index[p]]["type"]:
                for o in offs:
                    out["%s:%s@%s" % (fn, p, "*" if o is None else o)] = "TODO"
        print(json.dumps(out, indent=1))
    else:
        for fnc in (obligations, red_obligations):
            obs, st = fnc(prog)
            print(st, len(obs), "obligations", sum(1 for o in obs if not o.ok), "failing")
            for o in obs:
                if not o.ok:
                    print("  VIOL", o.oid, o.detail)
