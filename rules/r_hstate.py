"""R-HSTATE — typestate of SHA-256 / HMAC state objects: no use after finalize.

secp256k1_sha256_finalize and secp256k1_hmac_sha256_finalize consume their state (the digest is extracted, the chaining
value cleared): absorbing more data into, or finalising, the same object afterwards without a new initialisation computes
garbage.  Per function, a forward may-analysis over clang's CFG tracks for every state object (named by the expression
handed to the hashing calls) whether it *may* be finalised; a write / finalize that such a state can reach is reported.
Anything else that can touch the object — an assignment to it, a call of any other function that receives its address —
counts as a re-initialisation (tagged-hash initialisers, midstate copies), so only the definite pattern is reported.

The seeded pattern: `secp256k1_hmac_sha256_initialize` hoisted out of the `while (outlen > 0)` loop of the RFC 6979
generator ("the key is constant") — correct for the first 32 bytes, which is all the library ever asks for.
Expected count on the reviewed tree is zero; the number of finalize sites analysed is the floor against vacuity.
"""
from sxlib import *
from core import Obligation, props_of_function

STATE_TYPES = ("secp256k1_sha256", "secp256k1_hmac_sha256")
FINAL = {"secp256k1_sha256_finalize", "secp256k1_hmac_sha256_finalize"}
USE = {"secp256k1_sha256_write", "secp256k1_hmac_sha256_write"} | FINAL
INIT_PREFIX = ("secp256k1_sha256_initialize", "secp256k1_hmac_sha256_initialize")


def _state_arg(prog, c):
    g = prog.functions.get(callee_name(c) or "")
    if g is None:
        return None
    for i, p in enumerate(g.params):
        t = (p.get("pointee_canon") or p.get("pointee") or "")
        if p.get("ptr") and t.replace("struct ", "") in STATE_TYPES and i < len(c[3]):
            return i
    return None


def _key(e):
    e = strip(e)
    if kind(e) == "addr":
        return show(strip(e[1]))
    return "*" + show(e)


def analyse(prog, f):
    """(violations, number of finalize sites) for one function."""
    # events per block in order: (kind, key, loc)
    ev = {}
    nfin = 0
    keys = set()
    for bid, b in f.blocks.items():
        lst = []
        for el in b.elems:
            if not el.top:
                continue
            for c in calls_in(el.e):
                name = callee_name(c) or ""
                si = _state_arg(prog, c)
                if name in USE and si is not None:
                    k = _key(c[3][si])
                    keys.add(k)
                    lst.append(("use", k, el.loc, name))
                    if name in FINAL:
                        lst.append(("fin", k, el.loc, name))
                        nfin += 1
                else:
                    # any other call that receives the address of (or a pointer to) a tracked object re-initialises it
                    for a in c[3]:
                        lst.append(("reset", _key(a), el.loc, name))
            if kind(el.e) == "assign":
                lst.append(("reset", show(strip(el.e[2])), el.loc, "="))
                lst.append(("reset", "*" + show(strip(el.e[2])), el.loc, "="))
        ev[bid] = lst
    if not nfin:
        return [], 0
    # forward may-analysis: set of keys that may be finalised at block entry
    IN = {b: set() for b in f.blocks}
    changed = True
    viol = {}
    order = f.rpo()
    while changed:
        changed = False
        for bid in order:
            cur = set(IN[bid])
            for (kd, k, loc, name) in ev[bid]:
                if kd == "use" and k in cur:
                    viol.setdefault((k, loc), name)
                elif kd == "fin":
                    cur.add(k)
                elif kd == "reset":
                    cur.discard(k)
                    # a reset of the enclosing object resets its members
                    for k2 in [x for x in cur if x.startswith(k + ".") or x.startswith(k.lstrip("*") + "->")]:
                        cur.discard(k2)
            for s in f.blocks[bid].succs:
                if s is not None and not cur <= IN[s]:
                    IN[s] |= cur
                    changed = True
    return [(k, loc, name) for (k, loc), name in sorted(viol.items())], nfin


def obligations(prog):
    obs, total = [], 0
    for f in sorted(prog.functions.values(), key=lambda x: x.name):
        if not f.blocks or not f.file.startswith("src/") or f.file.endswith("tests_impl.h") or \
                f.file.startswith(("src/bench", "src/tests", "src/testrand", "src/unit_test", "src/ctime", "src/precompute")):
            continue
        v, n = analyse(prog, f)
        if not n:
            continue
        total += n
        obs.append(Obligation("R-HSTATE", "R-HSTATE:%s" % f.name, v[0][1] if v else f.loc, f.name,
                              "no SHA-256 / HMAC state of %s is written or finalised after it was finalised without being initialised again" % f.name, not v,
                              "; ".join("%s(%s) at %s can follow a finalize of %s" % (nm, k, loc, k) for k, loc, nm in v[:3]) or "%d finalize site(s), none followed by a use of the same state" % n,
                              props=props_of_function(f) | {"C05"}))
    if total < 40:
        raise AnalysisBroken("R-HSTATE: only %d finalize sites found" % total)
    return obs, {"finalize_sites": total, "functions": len(obs)}


if __name__ == "__main__":
    obs, st = obligations(program("K0"))
    print(st, [(o.oid, o.detail) for o in obs if not o.ok])
