"""R-CONST — the numeric constants and precomputed tables of the library satisfy their defining identities.

The constants are taken from the compiler's IR of /repo's current tree (clang -O0 -S -emit-llvm of src/secp256k1.c,
src/precomputed_ecmult.c and src/precomputed_ecmult_gen.c with the flags of each configuration; macros from
`clang -E -dM`), i.e. after preprocessing, configuration selection and limb packing — not from source text.  The reference
side is computed by this checker with Python integers from the published curve parameters (SEC 2: p, n, G, b = 7) and the
formulas the source comments give.  Nothing of the library is executed.

A typo in a limb of the 8x32 order constants, in p - n (used only when r + n < p, probability 2^-128), in one entry of
a 8192-entry window table or in the 1376-entry comb table passes the pinned test-suite (which builds one configuration
and samples table entries) — and is decided here for every entry.
"""
import hashlib
import os
import re
import subprocess

import sxlib
from sxlib import AnalysisBroken, VERIF, REPO, WORK
from core import Obligation

P = 2**256 - 2**32 - 977
N = 0xFFFFFFFFFFFFFFFFFFFFFFFFFFFFFFFEBAAEDCE6AF48A03BBFD25E8CD0364141
GX = 0x79BE667EF9DCBBAC55A06295CE870B07029BFCDB2DCE28D959F2815B16F81798
GY = 0x483ADA7726A3C4655DA4FBFC0E1108A8FD17B448A68554199C47D08FFB10D4B8
B = 7


# ------------------------------------------------------------------ reference group law (Python integers)

def inv(a, m):
    return pow(a, -1, m)


def on_curve(x, y):
    return 0 <= x < P and 0 <= y < P and (y * y - x * x * x - B) % P == 0


def add(p1, p2):
    if p1 is None:
        return p2
    if p2 is None:
        return p1
    x1, y1 = p1
    x2, y2 = p2
    if x1 == x2:
        if (y1 + y2) % P == 0:
            return None
        l = 3 * x1 * x1 * inv(2 * y1, P) % P
    else:
        l = (y2 - y1) * inv(x2 - x1, P) % P
    x3 = (l * l - x1 - x2) % P
    return (x3, (l * (x1 - x3) - y1) % P)


def jdbl(p):
    if p is None:
        return None
    x, y, z = p
    if y == 0:
        return None
    s = 4 * x * y * y % P
    m = 3 * x * x % P
    x3 = (m * m - 2 * s) % P
    y3 = (m * (s - x3) - 8 * y * y * y * y) % P
    return (x3, y3, 2 * y * z % P)


def jadd_affine(p, q):
    if p is None:
        return (q[0], q[1], 1)
    x1, y1, z1 = p
    x2, y2 = q
    z2 = z1 * z1 % P
    u2 = x2 * z2 % P
    s2 = y2 * z2 * z1 % P
    if u2 == x1:
        if s2 == y1:
            return jdbl(p)
        return None
    h = (u2 - x1) % P
    r = (s2 - y1) % P
    h2 = h * h % P
    h3 = h2 * h % P
    x3 = (r * r - h3 - 2 * x1 * h2) % P
    y3 = (r * (x1 * h2 - x3) - y1 * h3) % P
    return (x3, y3, h * z1 % P)


def to_affine(p):
    if p is None:
        return None
    x, y, z = p
    zi = inv(z, P)
    return (x * zi * zi % P, y * zi * zi * zi % P)


def mul(k, pt):
    k %= N
    acc = None
    for i in range(k.bit_length() - 1, -1, -1):
        acc = jdbl(acc)
        if (k >> i) & 1:
            acc = jadd_affine(acc, pt)
    return to_affine(acc)


# ------------------------------------------------------------------ constants out of the IR

def _emit_ir(config, unit):
    os.makedirs(WORK, exist_ok=True)
    out = os.path.join(WORK, "const.%s.%s.%s.ll" % (config, unit.replace(".c", ""), sxlib.tree_digest()))
    if os.path.exists(out) and os.path.getsize(out) > 0:
        return out
    for f in os.listdir(WORK):
        if f.startswith("const.") and sxlib.tree_digest() not in f:
            try:
                os.remove(os.path.join(WORK, f))
            except OSError:
                pass
    tmp = out + ".tmp%d" % os.getpid()
    r = subprocess.run(["clang-14"] + sxlib.cflags(config) + ["-O0", "-S", "-emit-llvm", os.path.join(REPO, "src", unit), "-o", tmp],
                       stdout=subprocess.PIPE, stderr=subprocess.PIPE, text=True)
    if r.returncode != 0:
        raise AnalysisBroken("R-CONST: cannot compile %s (%s): %s" % (unit, config, r.stderr[-400:]))
    os.replace(tmp, out)
    return out


def _macros(config):
    r = subprocess.run(["clang-14"] + sxlib.cflags(config) + ["-E", "-dM", os.path.join(REPO, "src", "secp256k1.c")],
                       stdout=subprocess.PIPE, stderr=subprocess.PIPE, text=True)
    if r.returncode != 0:
        raise AnalysisBroken("R-CONST: preprocessing failed: " + r.stderr[-300:])
    m = {}
    for line in r.stdout.splitlines():
        mm = re.match(r"#define (\w+) (.*)$", line)
        if mm:
            m[mm.group(1)] = mm.group(2).strip()
    return m


def _cint(text, macros, depth=0):
    """Value of a C integer constant expression made of literals, parentheses, casts to fixed-width types, ~ + - and macros."""
    t = text
    for _ in range(8):
        t2 = re.sub(r"\b([A-Za-z_]\w*)\b", lambda mm: "(" + macros[mm.group(1)] + ")" if mm.group(1) in macros and not re.match(r"^(uint\d+_t|UL|ULL|U)$", mm.group(1)) else mm.group(0), t)
        if t2 == t:
            break
        t = t2
    t = re.sub(r"\(\s*uint\d+_t\s*\)", "", t)
    t = re.sub(r"(0[xX][0-9a-fA-F]+|\d+)[uUlL]*", r"\1", t)
    if not re.match(r"^[\s0-9a-fA-FxX()~+\-*]+$", t):
        raise AnalysisBroken("R-CONST: cannot evaluate constant expression `%s`" % text[:80])
    return eval(t, {"__builtins__": {}})


_TYPE_RX = re.compile(r"\[\d+ x [^\[\]]*?\]")


def _parse_value(init):
    """LLVM constant aggregate -> nested Python lists of ints (types dropped)."""
    s = init
    s = re.sub(r"\[(\d+) x i(?:8|16|32|64)\] zeroinitializer", lambda m: "[" + ", ".join(["0"] * int(m.group(1))) + "]", s)

    def cstr(m):
        raw = m.group(1)
        out = []
        i = 0
        while i < len(raw):
            if raw[i] == "\\":
                out.append(int(raw[i + 1:i + 3], 16))
                i += 3
            else:
                out.append(ord(raw[i]))
                i += 1
        return "[" + ", ".join(str(x) for x in out) + "]"
    s = re.sub(r'\[\d+ x i8\] c"((?:[^"\\]|\\[0-9A-Fa-f]{2})*)"', cstr, s)
    while True:
        s2 = _TYPE_RX.sub("", s)
        if s2 == s:
            break
        s = s2
    s = re.sub(r"%struct\.[\w.]+\*?|%union\.[\w.]+", "", s)
    s = re.sub(r"\bi(?:8|16|32|64)\b", "", s)
    while True:                      # anonymous (packed) struct *types* are now brackets holding only commas: drop them
        s2 = re.sub(r"<?\{[\s,]*\}>?", "", s)
        if s2 == s:
            break
        s = s2
    s = s.replace("zeroinitializer", '"Z"').replace("<{", "[").replace("}>", "]").replace("{", "[").replace("}", "]")
    s = re.sub(r",\s*align \d+.*$", "", s).strip()
    import json
    try:
        return json.loads(s)
    except ValueError:
        raise AnalysisBroken("R-CONST: cannot parse IR initialiser: %s" % init[:120])


class Consts:
    def __init__(self, config):
        self.config = config
        self.globals = {}
        for unit in ("secp256k1.c", "precomputed_ecmult.c", "precomputed_ecmult_gen.c"):
            with open(_emit_ir(config, unit)) as fh:
                for line in fh:
                    if not line.startswith("@") or " = external " in line:
                        continue
                    m = re.match(r"@([\w.]+) = (?:[a-z_]+ )*(?:constant|global) (.*)$", line)
                    if m and m.group(1) not in self.globals:
                        self.globals[m.group(1)] = m.group(2)
        self.macros = _macros(config)

    def raw(self, name):
        if name not in self.globals:
            raise AnalysisBroken("R-CONST: constant %s is not in the IR any more (%s)" % (name, self.config))
        return self.globals[name]

    @staticmethod
    def _limbs(lst, bits):
        v = 0
        for i, x in enumerate(lst):
            v += (x & ((1 << (64 if bits in (64, 52, 62) else 32)) - 1)) << (bits * i)
        return v

    @staticmethod
    def _signed_limbs(lst, bits):
        return sum(x << (bits * i) for i, x in enumerate(lst))

    @staticmethod
    def _flat(v):
        out = []

        def rec(x):
            if isinstance(x, list):
                for y in x:
                    rec(y)
            else:
                out.append(x)
        rec(v)
        return out

    def scalar_of(self, v):
        if v == "Z":
            return 0
        d = self._flat(v)
        return self._limbs(d, 64 if len(d) == 4 else 32)

    def fe_of(self, v):
        if v == "Z":
            return 0
        d = self._flat(v)
        return self._limbs(d, 52 if len(d) == 5 else 26)

    def storage_of(self, v):
        d = self._flat(v)
        return self._limbs(d, 64 if len(d) == 4 else 32)

    def scalar(self, name):
        return self.scalar_of(_parse_value(self.raw(name)))

    def fe(self, name):
        return self.fe_of(_parse_value(self.raw(name)))

    def ge(self, name):
        v = _parse_value(self.raw(name))
        return (self.fe_of(v[0]), self.fe_of(v[1]), v[2])

    def modinfo(self, name):
        v = _parse_value(self.raw(name))
        limbs = self._flat(v[0])
        bits = 62 if len(limbs) == 5 else 30
        return self._signed_limbs(limbs, bits), v[1] & ((1 << (64 if bits == 62 else 32)) - 1), bits

    def table(self, name):
        """[(x, y)] of a (possibly two-dimensional) array of secp256k1_ge_storage."""
        v = _parse_value(self.raw(name))
        out = []

        def rec(x):
            if isinstance(x, list) and len(x) == 2 and isinstance(x[0], list) and len(x[0]) == 1 and isinstance(x[0][0], list) and x[0][0] and isinstance(x[0][0][0], int):
                out.append((self.storage_of(x[0]), self.storage_of(x[1])))
            else:
                for y in x:
                    rec(y)
        rec(v)
        return out

    def macro_limbs(self, prefix, count, bits):
        v = 0
        for i in range(count):
            k = "%s_%d" % (prefix, i)
            if k not in self.macros:
                raise AnalysisBroken("R-CONST: macro %s vanished (%s)" % (k, self.config))
            v += (_cint(self.macros[k], self.macros) & ((1 << bits) - 1)) << (bits * i)
        return v


# ------------------------------------------------------------------ the identities

def obligations_for(config):
    c = Consts(config)
    obs = []

    def ob(oid, name, text, ok, detail, props, loc=None):
        obs.append(Obligation("R-CONST", "R-CONST:%s" % oid, loc or name, name, text, bool(ok), detail, props=props))

    def hexs(v):
        return "%064x" % v

    wide = "SECP256K1_N_4" not in c.macros      # 4x64 limbs
    nl, bits = (4, 64) if wide else (8, 32)
    arith = {"C05", "C01", "C04"}
    n_macro = c.macro_limbs("SECP256K1_N", nl, bits)
    ob("order:N", "SECP256K1_N_*", "the limbs SECP256K1_N_0..%d of the scalar implementation spell the group order n" % (nl - 1), n_macro == N, hexs(n_macro), arith)
    ncl = 3 if wide else 5
    nc = c.macro_limbs("SECP256K1_N_C", ncl, bits)
    ob("order:N_C", "SECP256K1_N_C_*", "SECP256K1_N_C_* spell 2^256 - n (the reduction constant)", nc == 2**256 - N, hexs(nc), arith)
    nh = c.macro_limbs("SECP256K1_N_H", nl, bits)
    ob("order:N_H", "SECP256K1_N_H_*", "SECP256K1_N_H_* spell floor(n / 2) (the low-S / is_high threshold)", nh == N >> 1, hexs(nh), arith | {"C03"})

    m, minv, mb = c.modinfo("secp256k1_const_modinfo_scalar")
    ob("modinv:scalar", "secp256k1_const_modinfo_scalar", "modular-inverse parameters of the scalar field: modulus = n and modulus_inv = n^-1 mod 2^%d" % mb,
       m == N and (minv * N) % (1 << mb) == 1, "modulus %s, inv*n mod 2^%d = %d" % (hexs(m % 2**256), mb, (minv * N) % (1 << mb)), arith)
    m, minv, mb = c.modinfo("secp256k1_const_modinfo_fe")
    ob("modinv:fe", "secp256k1_const_modinfo_fe", "modular-inverse parameters of the base field: modulus = p and modulus_inv = p^-1 mod 2^%d" % mb,
       m == P and (minv * P) % (1 << mb) == 1, "modulus %s" % hexs(m % 2**256), arith)

    ob("scalar:one", "secp256k1_scalar_one", "secp256k1_scalar_one = 1 and secp256k1_scalar_zero = 0", c.scalar("secp256k1_scalar_one") == 1 and c.scalar("secp256k1_scalar_zero") == 0, "", arith)
    ob("fe:one", "secp256k1_fe_one", "secp256k1_fe_one = 1", c.fe("secp256k1_fe_one") == 1, "", arith)

    gx, gy, ginf = c.ge("secp256k1_ge_const_g")
    ob("G", "secp256k1_ge_const_g", "secp256k1_ge_const_g is the SEC 2 generator of secp256k1 (and not flagged infinite)", (gx, gy, ginf) == (GX, GY, 0), "x=%s" % hexs(gx), arith | {"C02", "C18"})

    lam = c.scalar("secp256k1_const_lambda")
    beta = c.fe("secp256k1_const_beta")
    ob("endo:lambda", "secp256k1_const_lambda", "lambda is a primitive cube root of unity mod n", lam not in (0, 1) and (lam * lam + lam + 1) % N == 0, hexs(lam), arith | {"C18"})
    ob("endo:beta", "secp256k1_const_beta", "beta is a primitive cube root of unity mod p", beta not in (0, 1) and (beta * beta + beta + 1) % P == 0, hexs(beta), arith | {"C18"})
    lg = mul(lam, (GX, GY))
    ob("endo:pair", "secp256k1_const_lambda", "lambda and beta belong together: lambda*G = (beta*G.x, G.y)", lg == (beta * GX % P, GY), "lambda*G = (%s.., %s..)" % (hexs(lg[0])[:16], hexs(lg[1])[:16]), arith | {"C18"})

    mb1 = c.scalar("secp256k1_scalar_split_lambda.minus_b1")
    mb2 = c.scalar("secp256k1_scalar_split_lambda.minus_b2")
    g1 = c.scalar("secp256k1_scalar_split_lambda.g1")
    g2 = c.scalar("secp256k1_scalar_split_lambda.g2")
    b1 = -mb1                      # b1 is negative and small
    b2 = (N - mb2)                 # b2 = a1 is positive and small
    a1 = b2
    a2 = a1 - b1
    ok_lat = (a1 + b1 * lam) % N == 0 and (a2 + b2 * lam) % N == 0 and 0 < mb1 < 2**128 and 0 < b2 < 2**128
    ob("endo:lattice", "secp256k1_scalar_split_lambda", "the lattice basis of the GLV split satisfies a1 + b1*lambda = 0 and a2 + b2*lambda = 0 (mod n) with 128-bit b1, b2",
       ok_lat, "-b1=%x b2=%x" % (mb1, b2), arith | {"C18"})

    def rnd(a, b):
        return (2 * a + b) // (2 * b)
    ob("endo:g1g2", "secp256k1_scalar_split_lambda", "g1 = round(2^384 * b2 / n) and g2 = round(2^384 * (-b1) / n)", g1 == rnd(2**384 * b2, N) and g2 == rnd(2**384 * mb1, N),
       "g1=%x g2=%x" % (g1, g2), arith | {"C18"})

    ob("ecdsa:order_as_fe", "secp256k1_ecdsa_const_order_as_fe", "secp256k1_ecdsa_const_order_as_fe = n (as a field element)", c.fe("secp256k1_ecdsa_const_order_as_fe") == N, "", {"C01", "C05"})
    ob("ecdsa:p_minus_order", "secp256k1_ecdsa_const_p_minus_order", "secp256k1_ecdsa_const_p_minus_order = p - n (the r + n < p case of ECDSA verification)",
       c.fe("secp256k1_ecdsa_const_p_minus_order") == P - N, hexs(c.fe("secp256k1_ecdsa_const_p_minus_order")), {"C01", "C05"})

    # ecmult_const: K = (2^l - 2^129 - 1) * (1 + lambda) mod n, l = ECMULT_CONST_BITS; S_OFFSET = 2^128
    gs = _cint(c.macros.get("ECMULT_CONST_GROUP_SIZE", "0"), c.macros)
    if not gs:
        raise AnalysisBroken("R-CONST: ECMULT_CONST_GROUP_SIZE vanished")
    l = ((129 + gs - 1) // gs) * gs
    k = c.scalar("secp256k1_ecmult_const_K")
    ob("ecmult_const:K", "secp256k1_ecmult_const_K", "K = (2^l - 2^129 - 1)(1 + lambda) mod n for l = ECMULT_CONST_BITS = %d" % l, k == ((2**l - 2**129 - 1) * (1 + lam)) % N, hexs(k), {"C18", "C05"})
    ob("ecmult_const:S_OFFSET", "secp256k1_ecmult_const.S_OFFSET", "S_OFFSET = 2^128", c.scalar("secp256k1_ecmult_const.S_OFFSET") == 2**128, "", {"C18", "C05"})

    # ElligatorSwift / Shallue-van de Woestijne constants: sqrt(-3) relations
    c1, c2, c3, c4 = (c.fe("secp256k1_ellswift_c%d" % i) for i in (1, 2, 3, 4))
    s3 = (2 * c1 + 1) % P
    ob("ellswift:c", "secp256k1_ellswift_c1..c4", "c1 = (sqrt(-3)-1)/2, c2 = (-sqrt(-3)-1)/2, c3 = (-sqrt(-3)+1)/2, c4 = (sqrt(-3)+1)/2 for one square root of -3",
       (s3 * s3 + 3) % P == 0 and c2 == (-s3 - 1) * inv(2, P) % P and c3 == (-s3 + 1) * inv(2, P) % P and c4 == (s3 + 1) * inv(2, P) % P, "sqrt(-3) = %s" % hexs(s3), {"C18"})
    negc = c.fe("shallue_van_de_woestijne.negc")
    d = c.fe("shallue_van_de_woestijne.d")
    cc = (-negc) % P
    ob("svdw:c,d", "shallue_van_de_woestijne", "negc = -sqrt(-3) and d = (sqrt(-3) - 1)/2 for the same root", (cc * cc + 3) % P == 0 and d == (cc - 1) * inv(2, P) % P, "", {"C08", "C09", "C11"})

    # the alternate generator H
    h = _parse_value(c.raw("secp256k1_generator_h_internal"))[0]
    hx = int.from_bytes(bytes(h[:32]), "big")
    hy = int.from_bytes(bytes(h[32:]), "big")
    gser = b"\x04" + GX.to_bytes(32, "big") + GY.to_bytes(32, "big")
    ob("H", "secp256k1_generator_h_internal", "the value generator H is on the curve and its x coordinate is SHA256(uncompressed G) (nothing-up-my-sleeve derivation)",
       on_curve(hx, hy) and hx == int.from_bytes(hashlib.sha256(gser).digest(), "big"), "x=%s" % hexs(hx), {"C08", "C09", "C10"})

    # limb comparisons of the scalar range tests: word k is compared with word k of the constant it is tested against
    # (is_high: n/2, check_overflow: n) — `a->d[2] < SECP256K1_N_H_1` compiles, passes the vectors and is wrong for 2^-64 of all s
    prog_ = sxlib.program(config)
    for fname, ref, what in (("secp256k1_scalar_is_high", N >> 1, "n/2"), ("secp256k1_scalar_check_overflow", N, "n")):
        f_ = prog_.functions.get(fname)
        if f_ is None or not f_.blocks:
            raise AnalysisBroken("R-CONST: %s vanished" % fname)
        bad_, n_cmp = [], 0
        for el in f_.elems():
            if not el.top:
                continue
            for x in sxlib.walk(el.e):
                if sxlib.kind(x) == "bin" and x[1] in ("<", ">", "<=", ">=", "==", "!="):
                    for a_, b_ in ((x[2], x[3]), (x[3], x[2])):
                        a0 = sxlib.strip(a_)
                        if sxlib.kind(a0) == "var":
                            # a local that was loaded from one word (`const uint64_t a2 = a->d[2];`) stands for it
                            ds_ = [r_ for e2 in f_.elems() for (n_, o_, r_, v_) in sxlib.defs_in_elem(e2.e) if n_ == a0[1]]
                            if len(ds_) == 1 and ds_[0] is not None:
                                a0 = sxlib.strip(ds_[0])
                        if sxlib.kind(a0) == "index" and sxlib.is_int(a0[2]) and sxlib.is_int(b_) and "->d" in sxlib.show(a0[1]).replace(" ", ""):
                            k_ = sxlib.int_val(a0[2])
                            n_cmp += 1
                            if sxlib.int_val(b_) & ((1 << bits) - 1) != (ref >> (bits * k_)) & ((1 << bits) - 1):
                                bad_.append("d[%d] is compared with 0x%x, word %d of %s is 0x%x" % (k_, sxlib.int_val(b_), k_, what, (ref >> (bits * k_)) & ((1 << bits) - 1)))
        ob("limbcmp:%s" % fname, fname, "%s compares word k of the scalar with word k of %s" % (fname, what), not bad_,
           ("%d limb comparisons, each against its own word" % n_cmp) if (not bad_ and n_cmp) else
           ("NOT DECIDED: no comparison of a word with a literal found" if not bad_ else "; ".join(bad_[:3])), arith | {"C03"})

    # the static context's positional initialiser against the field order of the context struct
    raw = c.raw("secp256k1_context_static_")
    pi, pe = raw.find("@secp256k1_default_illegal_callback_fn"), raw.find("@secp256k1_default_error_callback_fn")
    st = sxlib.program(config).structs
    cs = st.get("secp256k1_context_struct") or st.get("struct secp256k1_context_struct") or {}
    names = [x["name"] for x in cs.get("fields", [])]
    if "illegal_callback" not in names or "error_callback" not in names:
        raise AnalysisBroken("R-CONST: struct secp256k1_context_struct has no illegal_callback / error_callback fields any more")
    ok_ctx = pi >= 0 and pe >= 0 and ((pi < pe) == (names.index("illegal_callback") < names.index("error_callback")))
    ob("static-context:callbacks", "secp256k1_context_static_",
       "the positional initialiser of secp256k1_context_static_ puts the default illegal-argument handler into illegal_callback and the default error handler into error_callback",
       ok_ctx, "struct field order: %s; initialiser order: %s" % (", ".join(n for n in names if n.endswith("_callback")),
                                                                 "illegal, error" if pi < pe else "error, illegal"), {"C20", "C07"})

    # window tables of ecmult
    w = _cint(c.macros.get("WINDOW_G", c.macros.get("ECMULT_WINDOW_SIZE", "0")), c.macros)
    for name, base_mult in (("secp256k1_pre_g", 1), ("secp256k1_pre_g_128", 2**128)):
        tab = c.table(name)
        want = 1 << (w - 2)
        base = mul(base_mult, (GX, GY))
        two = add(base, base)
        bad = None
        cur = base
        for i, (x, y) in enumerate(tab):
            if (x, y) != cur:
                bad = i
                break
            cur = add(cur, two)
        ob("table:%s" % name, name, "%s[i] = (2i+1) * %sG for all %d entries (ECMULT_WINDOW_SIZE = %d)" % (name, "2^128 * " if base_mult != 1 else "", want, w),
           bad is None and len(tab) == want, ("all %d entries verified" % len(tab)) if bad is None else "entry %d differs from (2*%d+1)*base" % (bad, bad), {"C05", "C01", "C02", "C04"})

    # comb table of ecmult_gen
    blocks = _cint(c.macros["COMB_BLOCKS"], c.macros)
    teeth = _cint(c.macros["COMB_TEETH"], c.macros)
    spacing = -(-256 // (blocks * teeth))
    tab = c.table("secp256k1_ecmult_gen_prec_table")
    points = 1 << (teeth - 1)
    half = inv(2, N)
    bad = None
    if len(tab) == blocks * points:
        # pw[j] = 2^j * (G/2), by repeated doubling of (n+1)/2 * G
        pw = [mul(half, (GX, GY))]
        for j in range(blocks * teeth * spacing):
            pw.append(add(pw[-1], pw[-1]))
        for blk in range(blocks):
            for idx in range(points):
                acc = None
                for t in range(teeth):
                    pt = pw[(blk * teeth + t) * spacing]
                    if not (t < teeth - 1 and (idx >> t) & 1):
                        pt = (pt[0], (-pt[1]) % P)
                    acc = add(acc, pt)
                if acc != tab[blk * points + idx]:
                    bad = (blk, idx)
                    break
            if bad:
                break
    ob("table:ecmult_gen", "secp256k1_ecmult_gen_prec_table",
       "secp256k1_ecmult_gen_prec_table[b][i] = (sum_t s_t 2^((b*%d+t)*%d)) * G/2 with s_t = +1 iff bit t of i is set (t < %d), s_%d = -1, for all %d x %d entries"
       % (teeth, spacing, teeth - 1, teeth - 1, blocks, points),
       bad is None and len(tab) == blocks * points, ("all %d entries verified" % len(tab)) if bad is None and len(tab) == blocks * points else "entry %s differs (table has %d entries)" % (bad, len(tab)),
       {"C05", "C01", "C02", "C04", "C20"})
    return obs


_MEMO = {}


def obligations(prog_or_cfg):
    config = prog_or_cfg if isinstance(prog_or_cfg, str) else getattr(prog_or_cfg, "config", "K0")
    if config not in _MEMO:
        _MEMO[config] = obligations_for(config)
    return _MEMO[config], {"constants_and_tables": len(_MEMO[config])}


if __name__ == "__main__":
    import sys
    import time
    t = time.time()
    obs, st = obligations(sys.argv[1] if len(sys.argv) > 1 else "K0")
    for o in obs:
        print("OK  " if o.ok else "VIOL", o.oid, "|", o.detail[:100])
    print(st, "%.1fs" % (time.time() - t))
