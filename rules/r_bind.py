"""R-BIND — point comparisons compare the full point (DESIGN §4).

(a) who-may-call: the x-only comparison primitive secp256k1_gej_eq_x_var is the ECDSA verification
    equation's comparison and may be called from nowhere else.
(b) every secp256k1_fe_equal / fe_cmp_var between the .x members of two point objects has, in the same
    function, a partner comparing the .y members of the same two objects.
(c) the listed functions still contain the full-point equality their specification asks for.
"""
from sxlib import *
from core import Obligation, props_of_function

X_ONLY_CALLERS = {"secp256k1_gej_eq_x_var": {"secp256k1_ecdsa_sig_verify"}}
# primitives whose precondition is only a VERIFY_CHECK (compiled out of the library): who may call them is frozen from the reviewed
# tree, where every caller establishes the precondition — a new caller has to be reviewed, not assumed
PRECOND_CALLERS = {
    "secp256k1_gej_add_ge": ({"secp256k1_ec_pubkey_combine", "secp256k1_ecmult_const", "secp256k1_ecmult_gen", "secp256k1_generator_generate_internal"},
                             "the constant-time mixed addition requires a finite second operand (checked by VERIFY_CHECK only); callers that may see "
                             "the point at infinity use secp256k1_gej_add_ge_var"),
}
FE_CMP = ("secp256k1_fe_equal", "secp256k1_fe_equal_var", "secp256k1_fe_cmp_var")
# function -> (acceptable full-equality callees or 'xy' for the paired-coordinate idiom, properties, what)
FULL_EQ = {
    "secp256k1_musig_partial_sign": (["xy"], {"C13", "C12"}, "the secnonce's stored public key must equal the keypair's public key as a point (x and y)"),
    "secp256k1_musig_keyaggcoef_internal": (["secp256k1_ge_eq_var"], {"C12"}, "BIP-327 gives coefficient 1 to keys equal to the second key as 33-byte encodings (full point)"),
    "secp256k1_bppp_rangeproof_norm_product_verify": (["secp256k1_gej_eq_var"], {"C19"}, "the final multi-exponentiation equality is an equality of points"),
    "secp256k1_ecdsa_adaptor_verify": (["secp256k1_gej_add_ge_var+secp256k1_gej_is_infinity"], {"C14"}, "R' == s'^-1(mG + R.x X) is an equality of points"),
    "secp256k1_pedersen_verify_tally": (["secp256k1_gej_is_infinity"], {"C08"}, "the tally must sum to the point at infinity"),
}


def _xy_member(e):
    """('x'|'y', object-text) when e is &OBJ.x / &OBJ->x / OBJ.x."""
    e = strip(e)
    if kind(e) == "addr":
        e = strip(e[1])
    if kind(e) == "member" and e[2] in ("x", "y"):
        return e[2], show(e[1])
    return None


def obligations(prog):
    obs = []
    # (a)
    callers = prog.callers()
    for prim, allowed in X_ONLY_CALLERS.items():
        if prim not in prog.functions:
            raise AnalysisBroken("R-BIND: primitive %s vanished" % prim)
        n = 0
        for (f, el, c) in callers.get(prim, []):
            if f.file.endswith("tests_impl.h") or f.name.startswith("test_") or f.name.startswith("run_"):
                continue
            n += 1
            ok = f.name in allowed
            obs.append(Obligation("R-BIND", "R-BIND:x-only:%s:%s#%d" % (prim, f.name, n), c[2], f.name,
                                  "the x-only comparison %s may only be used by %s" % (prim, ", ".join(sorted(allowed))), ok,
                                  "called from %s" % f.name))
    for prim, (allowed, why) in PRECOND_CALLERS.items():
        if prim not in prog.functions:
            raise AnalysisBroken("R-BIND: primitive %s vanished" % prim)
        n = 0
        for (f, el, c) in callers.get(prim, []):
            if f.file.endswith("tests_impl.h") or f.name.startswith("test_") or f.name.startswith("run_") or f.file.startswith(("src/bench", "src/tests")):
                continue
            n += 1
            obs.append(Obligation("R-BIND", "R-BIND:precond:%s:%s#%d" % (prim, f.name, n), c[2], f.name,
                                  "%s: %s" % (prim, why), f.name in allowed, "called from %s" % f.name, props=props_of_function(f) | {"C05", "C07"}))
    # (b)
    for f in prog.functions.values():
        if not f.blocks or not f.file.startswith("src/") or f.file.startswith(("src/field", "src/group", "src/ecmult", "src/scalar")):
            continue
        pairs = {}
        for el, c in f.all_calls():
            if callee_name(c) in FE_CMP and len(c[3]) >= 2:
                a, b = _xy_member(c[3][0]), _xy_member(c[3][1])
                if a and b and a[0] == b[0]:
                    key = tuple(sorted((a[1], b[1])))
                    pairs.setdefault(key, {}).setdefault(a[0], c[2])
        for key, d in sorted(pairs.items()):
            ok = "x" in d and "y" in d
            if "x" not in d:
                continue
            obs.append(Obligation("R-BIND", "R-BIND:xy:%s:%s~%s" % (f.name, key[0], key[1]), d["x"], f.name,
                                  "a comparison of the x coordinates of %s and %s must be paired with one of their y coordinates" % key, ok,
                                  "x compared at %s, y compared at %s" % (d["x"], d.get("y", "nowhere: x-only comparison accepts the negated point"))))
    # (c)
    for fname, (accept, props, what) in FULL_EQ.items():
        f = prog.fn(fname)
        names = {callee_name(c) for el, c in f.all_calls()}
        found = None
        for a in accept:
            if a == "xy":
                pairs = {}
                for el, c in f.all_calls():
                    if callee_name(c) in FE_CMP and len(c[3]) >= 2:
                        p, q = _xy_member(c[3][0]), _xy_member(c[3][1])
                        if p and q and p[0] == q[0]:
                            pairs.setdefault(tuple(sorted((p[1], q[1]))), set()).add(p[0])
                if any(v == {"x", "y"} for v in pairs.values()):
                    found = "paired .x/.y comparison"
            elif "+" in a:
                if all(x in names for x in a.split("+")):
                    found = a
            elif a in names:
                found = a
        obs.append(Obligation("R-BIND", "R-BIND:full:%s" % fname, f.loc, fname, what, found is not None,
                              ("full-point equality via %s" % found) if found else "no full-point equality (%s) left in the function" % " / ".join(accept),
                              props=props))
    return obs, {"x_only_primitives": len(X_ONLY_CALLERS), "full_eq_instances": len(FULL_EQ)}


if __name__ == "__main__":
    obs, st = obligations(program("K0"))
    print(st)
    for o in obs:
        print("OK  " if o.ok else "VIOL", o.oid, o.loc, o.detail)
