"""R-ARGS — arguments keep the callee's order (sibling agreement between a forwarding call and the callee's signature).

When a call passes two of the caller's own variables whose names are the names of two *parameters of the callee*, it passes
them in the callee's order: `impl(output, y32, x32, data)` for `impl(unsigned char *output, const unsigned char *x32,
const unsigned char *y32, void *data)` is reported.  The expected count on the reviewed tree is zero (no call of the library
crosses two same-named arguments); a synthetic crossed call is matched on every run as the positive control.
"""
from sxlib import *
from core import Obligation, props_of_function


def crossed(names, args):
    """Pairs (i, j) of argument positions whose plain-variable arguments carry each other's parameter name."""
    an = [strip(a)[1] if kind(strip(a)) == "var" else None for a in args]
    out = []
    for i in range(min(len(an), len(names))):
        for j in range(i + 1, min(len(an), len(names))):
            if an[i] and an[j] and an[i] == names[j] and an[j] == names[i] and names[i] != names[j]:
                out.append((i, j))
    return out


# (function, parameter, properties, contract): int parameters documented as booleans ("zero ..., non-zero ...")
FLAG_PARAMS = [
    ("secp256k1_ellswift_xdh", "party", {"C18"}, "party: zero for the A side, any non-zero value for the B side"),
]


def _contexts(f, name):
    """Context of every occurrence of variable `name`: 'bool' (truth value only) or a description of the value use."""
    res = []

    def rec(e, ctx):
        k = kind(e)
        if k is None:
            return
        if k == "var":
            if e[1] == name:
                res.append(ctx)
            return
        if k == "bool":
            return rec(e[1], "bool")
        if k == "un" and e[1] == "!":
            return rec(e[2], "bool")
        if k == "cond":
            rec(e[1], "bool")
            rec(e[2], "value in " + show(e)[:40])
            rec(e[3], "value in " + show(e)[:40])
            return
        if k == "bin" and e[1] in ("&&", "||"):
            rec(e[2], "bool")
            rec(e[3], "bool")
            return
        if k == "bin" and e[1] in ("==", "!=") and (is_int(e[3], 0) or is_int(e[2], 0)):
            rec(e[2], "bool")
            rec(e[3], "bool")
            return
        for c in children(e):
            rec(c, "value in `%s`" % show(e)[:50])
    for b in f.blocks.values():
        for el in b.elems:
            if el.top:
                rec(el.e, "statement")
        if b.cond is not None:
            rec(b.cond, "bool")
    return res


# (function, parameter, properties, contract): 64-bit amounts.  An amount is an unsigned quantity up to 2^64 - 1; reading it
# through a signed type (`int64_t sv = (int64_t)value[i]`) computes v - 2^64 for v >= 2^63 (C08-h).  sx drops same-width
# integral casts, so the rule looks at what receives the amount: no variable of a signed integer type is initialised or
# assigned from an expression that carries the amount (comparisons and truth values carry nothing).
AMOUNT_PARAMS = [
    ("secp256k1_pedersen_blind_generator_blind_sum", "value", {"C08"}, "value[i]: the i-th 64-bit amount"),
    ("secp256k1_pedersen_commit", "value", {"C08"}, "value: the committed 64-bit amount"),
    ("secp256k1_pedersen_ecmult", "value", {"C08"}, "value: the committed 64-bit amount"),
]
_CMP = ("==", "!=", "<", ">", "<=", ">=", "&&", "||")


def _carries(e, names):
    """e carries the value of one of `names` (not merely a comparison / truth value of it)."""
    k = kind(e)
    if k is None:
        return False
    if k == "var":
        return e[1] in names
    if k == "bool" or (k == "un" and e[1] == "!") or (k == "bin" and e[1] in _CMP):
        return False
    if k == "call":
        return False
    if k == "cond":
        return _carries(e[2], names) or _carries(e[3], names)
    return any(_carries(c, names) for c in children(e))


def amount_obligations(prog):
    if not _carries(["bin", "+", ["var", "value"], ["int", "1", 64]], {"value"}) or _carries(["bin", "<", ["var", "value"], ["int", "0", 64]], {"value"}):
        raise AnalysisBroken("R-ARGS: the positive control of the amount clause is not matched")
    obs = []
    for (fn, p, props, why) in AMOUNT_PARAMS:
        f = prog.fn(fn)
        if p not in f.param_index:
            raise AnalysisBroken("R-ARGS: parameter %s of %s vanished" % (p, fn))
        tainted, bad, nrecv = {p}, [], 0
        for _ in range(4):
            bad, nrecv = [], 0
            for el in f.elems():
                cands = [x for x in walk(el.e) if kind(x) == "assign"]
                if kind(el.e) == "decls":
                    cands += [["assign", "=", ["var", d[1]], d[2]] for d in el.e[1:] if d[2] is not None and kind(d[2]) != "init"]
                for x in cands:
                    t = strip(x[2])
                    if kind(t) != "var" or not _carries(x[3], tainted):
                        continue
                    v = f.vars.get(t[1]) or {}
                    if "int_bits" not in v:
                        continue
                    nrecv += 1
                    if v["signed"]:
                        bad.append((el.loc, t[1], show(x)[:70]))
                    else:
                        tainted.add(t[1])
        obs.append(Obligation("R-ARGS", "R-ARGS:amount:%s:%s" % (fn, p), bad[0][0] if bad else f.loc, fn,
                              "%s is an unsigned 64-bit amount (%s): it is never read through a signed integer type" % (p, why), not bad,
                              "; ".join("signed variable %s receives the amount in `%s` at %s" % (b[1], b[2], b[0]) for b in bad)
                              or "%d integer variables receive the amount, all unsigned" % nrecv, props=props))
    return obs


def flag_obligations(prog):
    obs = []
    for (fn, p, props, why) in FLAG_PARAMS:
        f = prog.fn(fn)
        if p not in f.param_index:
            raise AnalysisBroken("R-ARGS: parameter %s of %s vanished" % (p, fn))
        ctx = _contexts(f, p)
        bad = [c for c in ctx if c != "bool"]
        obs.append(Obligation("R-ARGS", "R-ARGS:flag:%s:%s" % (fn, p), f.loc, fn,
                              "%s is a boolean (%s): it is only ever tested for zero / non-zero" % (p, why), bool(ctx) and not bad,
                              ("used as a %s" % bad[0]) if bad else "%d uses, all as a truth value" % len(ctx), props=props))
    return obs


def obligations(prog):
    if crossed(["output", "x32", "y32", "data"], [["var", "output"], ["var", "y32"], ["var", "x32"], ["var", "data"]]) != [(1, 2)]:
        raise AnalysisBroken("R-ARGS: the positive control (a crossed call) is not matched")
    obs, ncalls = [], 0
    for f in sorted(prog.functions.values(), key=lambda x: x.name):
        if not f.blocks or not f.file.startswith("src/") or f.file.endswith("tests_impl.h") or \
                f.file.startswith(("src/bench", "src/tests", "src/testrand", "src/unit_test", "src/ctime", "src/precompute")):
            continue
        bad, n = [], 0
        for el, c in f.all_calls():
            g = prog.functions.get(callee_name(c) or "")
            if g is None or not g.params:
                continue
            names = [p["name"] for p in g.params]
            named = [strip(a)[1] for a in c[3] if kind(strip(a)) == "var" and strip(a)[1] in names]
            if len(named) < 2:
                continue
            n += 1
            for (i, j) in crossed(names, c[3]):
                bad.append((el.loc, g.name, names[i], names[j]))
        if not n:
            continue
        ncalls += n
        obs.append(Obligation("R-ARGS", "R-ARGS:%s" % f.name, bad[0][0] if bad else f.loc, f.name,
                              "calls in %s that pass variables named like the callee's parameters pass them in the callee's order" % f.name, not bad,
                              "; ".join("%s: %s receives %s and %s crossed" % b for b in bad) or "%d such calls, none crossed" % n,
                              props=props_of_function(f)))
    if ncalls < 50:
        raise AnalysisBroken("R-ARGS: only %d calls with two same-named arguments found" % ncalls)
    return obs + flag_obligations(prog) + amount_obligations(prog), {"calls_examined": ncalls, "flag_parameters": len(FLAG_PARAMS), "amount_parameters": len(AMOUNT_PARAMS)}


if __name__ == "__main__":
    obs, st = obligations(program("K0"))
    print(st, len(obs), [o.oid for o in obs if not o.ok])
