"""driver — runs the rules registered for a property, scopes their obligations,
applies known findings, writes evidence and reports, sets the exit code."""
import json
import os
import sys
import time
import traceback
import shutil

import sxlib
from sxlib import AnalysisBroken, VERIF
import core
import registry


def _explain(path):
    with open(path) as f:
        rep = json.load(f)
    pid = rep["property"]
    print("property %s, rule %s" % (pid, rep["rule"]))
    print("obligation id : %s" % rep["id"])
    print("reported at   : %s in %s" % (rep["loc"], rep["function"]))
    print("must hold     : %s" % rep["obligation"])
    print("reported      : %s" % rep["detail"])
    print("--- re-deriving on the current tree ---")
    obs, stats, _ = run_property(pid, "quick")
    for o in obs:
        if o.oid == rep["id"]:
            print("now           : %s — %s (%s)" % ("HOLDS" if o.ok else "FAILS", o.detail, o.loc))
            return 0 if o.ok else 1
    print("now           : the construct is no longer present")
    return 2


def run_property(pid, tier):
    spec = registry.PROPERTIES[pid]
    configs = spec.get("configs_thorough" if tier == "thorough" else "configs_quick", ["K0"])
    all_obs = []
    stats = {}
    for cfg in configs:
        for rule in spec["rules"]:
            if rule.get("tier") == "thorough" and tier != "thorough":
                continue
            if cfg != configs[0] and not rule.get("per_config", True):
                continue
            t0 = time.time()
            obs, st = rule["run"](cfg, tier)
            scoped = []
            for o in obs:
                ps = o.props
                if ps is None:
                    f = sxlib.program(cfg).functions.get(o.fn)
                    ps = core.props_of_function(f) if f else set()
                if pid in ps or rule.get("unscoped") or pid in rule.get("all_for", ()):
                    if cfg != configs[0]:
                        o.oid = o.oid + "@" + cfg
                    scoped.append(o)
            key = rule["name"] + ("" if cfg == configs[0] else "@" + cfg)
            stats[key] = {"obligations": len(scoped), "of_total": len(obs), "wall_s": round(time.time() - t0, 3)}
            stats[key].update({k: v for k, v in (st or {}).items()})
            all_obs.extend(scoped)
    return all_obs, stats, configs


def main(argv):
    if not argv or argv[0] in ("-h", "--help"):
        print(__doc__)
        return 2
    if argv[0] == "--list":
        for pid, spec in sorted(registry.PROPERTIES.items()):
            print(pid, ", ".join(r["name"] for r in spec["rules"]))
        return 0
    if argv[0] == "--explain":
        return _explain(argv[1])
    pid = argv[0]
    tier = "quick"
    if "--tier" in argv:
        tier = argv[argv.index("--tier") + 1]
    tier = os.environ.get("VERIF_TIER", tier) if "--tier" not in argv else tier
    if tier not in ("quick", "thorough"):
        tier = "quick"
    if pid not in registry.PROPERTIES:
        print("unknown or unclaimed property %s" % pid)
        return 2
    t0 = time.time()
    freeze = "--freeze-floors" in argv
    try:
        obs, stats, configs = run_property(pid, tier)
        floors = core.load_table("floors.json") if os.path.exists(os.path.join(VERIF, "tables", "floors.json")) else {}
        counts = {}
        for o in obs:
            if o.oid.rsplit("@", 1)[-1] in sxlib.CONFIGS:
                continue
            counts[o.rule] = counts.get(o.rule, 0) + 1
        totals = {k: v.get("of_total", 0) for k, v in stats.items() if "@" not in k}
        if freeze:
            floors[pid] = dict(counts, _total=totals)
            with open(os.path.join(VERIF, "tables", "floors.json"), "w") as f:
                json.dump(floors, f, indent=1, sort_keys=True)
            print("floors frozen for %s: %s" % (pid, counts))
        fl = floors.get(pid)
        if fl is None:
            raise AnalysisBroken("no instance floors frozen for %s (tables/floors.json)" % pid)
        floor_msgs = []
        # Floors guard against a rule going vacuous (its anchors renamed away, its engine matching nothing), not against
        # sites moving: instances frozen on the reviewed tree are keyed by function, so extracting a block into a new static
        # helper legitimately takes a few of them out of one property's scope (benign sets R2, R5, R7, R8).  Two levels:
        #   - per property: at least a third of the frozen instances of each rule (and at least one) are still matched;
        #   - per rule over the whole library: at most an eighth (at least 2) of the frozen instances may be missing.
        for rule, n in fl.items():
            if rule == "_total":
                continue
            need = max(1, (n + 2) // 3) if n else 0
            if counts.get(rule, 0) < need:
                floor_msgs.append("%s: rule %s matched %d instances, below the confirmed floor %d (of %d on the reviewed tree) — anchors moved or the rule lost its sites"
                                  % (pid, rule, counts.get(rule, 0), need, n))
        for rule, n in (fl.get("_total") or {}).items():
            slack = max(2, n // 8)
            if rule in totals and totals[rule] < n - slack:
                floor_msgs.append("%s: rule %s produced %d instances over the whole library, %d on the reviewed tree — the rule lost its sites"
                                  % (pid, rule, totals[rule], n))
        # a definite violation is reported as such; a floor shortfall alone is analysis-broken
        if floor_msgs and not any(not o.ok for o in obs):
            raise AnalysisBroken("; ".join(floor_msgs))
        for m in floor_msgs:
            print("NOTE: " + m)
    except AnalysisBroken as e:
        print("ANALYSIS-BROKEN property=%s: %s" % (pid, e))
        return 2
    except Exception:
        traceback.print_exc()
        print("ANALYSIS-BROKEN property=%s: internal error in the checker" % pid)
        return 2

    known = core.load_known_findings()
    failing = [o for o in obs if not o.ok]
    new, listed = [], []
    for o in failing:
        base = o.oid
        if base.rsplit("@", 1)[-1] in sxlib.CONFIGS:
            base = base.rsplit("@", 1)[0]          # the same construct seen under another build configuration
        if (pid, base) in known:
            listed.append((o, known[(pid, base)]))
        else:
            new.append(o)
    rep_dir = os.path.join(sxlib.OUT, "reports", pid)
    if os.path.isdir(rep_dir):
        shutil.rmtree(rep_dir)
    for o, what in listed:
        print("KNOWN-FINDING: property=%s %s [%s at %s]" % (pid, what, o.oid, o.loc))
    for i, o in enumerate(new):
        os.makedirs(rep_dir, exist_ok=True)
        p = os.path.join(rep_dir, "%d.json" % i)
        d = o.as_dict()
        d["property"] = pid
        with open(p, "w") as f:
            json.dump(d, f, indent=1)
        print("%s: %s: in %s: %s — %s" % (o.loc, o.rule, o.fn, o.text, o.detail))
        print("VIOLATION property=%s replay=%s" % (pid, p))

    spec = registry.PROPERTIES[pid]
    exc = [o for o in obs if o.exception]
    nontrivial = len({o.oid for o in obs})
    samples = [o.as_dict() for o in (failing[:3] + [o for o in obs if o.ok and not o.exception][:6] + exc[:2])]
    by_rule = {}
    for o in obs:
        r = by_rule.setdefault(o.rule, {"obligations": 0, "discharged": 0, "by_exception": 0, "failing": 0})
        r["obligations"] += 1
        if o.ok and not o.exception:
            r["discharged"] += 1
        elif o.ok:
            r["by_exception"] += 1
        else:
            r["failing"] += 1
    coverage = {
        "explanation": spec["explanation"],
        # the claim of this run covers every obligation except the recorded known findings (genuine defects of the tree,
        # listed in known_findings.txt and printed as KNOWN-FINDING): they are counted separately, not as discharged
        "obligations": len(obs) - len(listed),
        "discharged": len([o for o in obs if o.ok]),
        "known_findings_outside_the_claim": len(listed),
        "evaluations": len(obs),
        "distinct_nontrivial": nontrivial,
        "rule": "one obligation per rule instance found in the clang AST/CFG (or LLVM IR) of /repo's current tree; "
                "distinct = distinct obligation ids; every obligation names a construct (function, call site or path)",
        "samples": samples,
        "checker_cmd": "./check %s --tier %s" % (pid, tier),
        "trusted_base": spec.get("trusted_base", ["clang 14 front end", "engines/sx.cc", "rules/*.py", "tables/*.json (reviewed exceptions)"]),
        "configurations": configs,
        "per_rule": by_rule,
        "rule_runs": stats,
        "exceptions_applied": [{"id": o.oid, "reason": o.exception} for o in exc],
        "known_findings_matched": [o.oid for o, _ in listed],
        "not_decided": spec.get("not_decided", ""),
        "exhaustive": True,
    }
    sxlib.write_evidence(pid, tier, spec.get("level", "other"), coverage, spec.get("assumptions", []),
                         time.time() - t0, len(new))
    print("%s %s: %d obligations, %d hold (%d by named exception), %d known findings, %d violations [%.1fs]"
          % (pid, tier, len(obs), len([o for o in obs if o.ok]), len(exc), len(listed), len(new), time.time() - t0))
    return 1 if new else 0
