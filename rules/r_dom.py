"""R-DOM — must-pass-through obligations (DESIGN §4).

(ii)  every call in an exported function that can reach the fixed-base multiplication (secp256k1_ecmult_gen /
      secp256k1_ecmult_gen_blind) is dominated by the built-context check (ARG_CHECK on
      secp256k1_ecmult_gen_context_is_built, or the secp256k1_context_is_proper check of the randomize API), so that on
      the static context the call reports illegal use instead of touching blinding state.
(iii) in secp256k1_musig_partial_sign the signature is saved only on the success edge of secp256k1_musig_secnonce_load.
"""
from sxlib import *
from core import Obligation, load_table

TARGETS = ("secp256k1_ecmult_gen", "secp256k1_ecmult_gen_blind")
GUARDS = ("secp256k1_ecmult_gen_context_is_built", "secp256k1_context_is_proper")
PROPS = {"C20"}
# construction of the context is where the table state is built; not a use
SAFE = ("secp256k1_ecmult_gen_context_build", "secp256k1_context_preallocated_create", "secp256k1_context_create",
        "secp256k1_context_preallocated_clone", "secp256k1_context_clone")


def _guard_blocks(f):
    """Blocks whose branch condition is an ARG_CHECK on a built-context predicate; returns {block id: succ taken when the check passes}."""
    out = {}
    for b in f.blocks.values():
        if b.cond is None or not b.term:
            continue
        if not any(m in ("ARG_CHECK", "ARG_CHECK_VOID") for m in b.term.get("macros", [])) and \
                not any("ARG_CHECK" in el.macros for el in b.elems):
            continue
        cs = [callee_name(c) for c in calls_in(b.cond)]
        if not any(c in GUARDS for c in cs):
            continue
        # ARG_CHECK(cond) expands to if (!(cond)) { callback; return 0; } : the passing edge is the false edge
        c = strip(b.cond)
        pol_fail = True
        while kind(c) == "un" and c[1] == "!":
            c = strip(c[2])
            pol_fail = not pol_fail
        # after stripping, c is the predicate call; the branch `if (!(pred))` fails when pred == 0
        edges = f.succ_edges(b.id)
        # the original condition (before stripping) true edge = failure path of ARG_CHECK
        out[b.id] = [s for (s, pol) in edges if pol is False and s is not None]
    return out


def obligations(prog):
    g = prog.callgraph()
    # functions that can reach a target
    reach = set(TARGETS)
    changed = True
    while changed:
        changed = False
        for fn, cs in g.items():
            if fn not in reach and cs & reach:
                reach.add(fn)
                changed = True
    exc = load_table("dom_exceptions.json")
    used = set()
    obs = []
    n_funcs = 0
    memo = {}

    def unguarded(fname, depth=0):
        """Call sites inside fname's subtree that reach a target without a dominating guard: list of (chain, loc)."""
        if fname in memo:
            return memo[fname]
        memo[fname] = []      # cycle guard
        f = prog.functions.get(fname)
        if f is None or not f.blocks or depth > 12:
            return []
        dom = f.dominators()
        guards = _guard_blocks(f)
        bad = []
        for el, c in f.all_calls():
            cal = callee_name(c)
            if cal not in reach or cal in SAFE:
                continue
            guarded = any((s == el.blk or s in dom.get(el.blk, ())) for passing in guards.values() for s in passing)
            if guarded:
                continue
            if cal in TARGETS:
                bad.append(([fname, cal], c[2]))
            else:
                for (chain, loc) in unguarded(cal, depth + 1):
                    bad.append(([fname] + chain, loc))
        memo[fname] = bad
        return bad

    for f in sorted(prog.exported(), key=lambda x: x.name):
        if f.name not in reach or f.name in SAFE:
            continue
        n_funcs += 1
        bad = unguarded(f.name)
        oid = "R-DOM:built:%s" % f.name
        text = ("every path from %s to the generator multiplication (secp256k1_ecmult_gen / _blind) passes "
                "ARG_CHECK(secp256k1_ecmult_gen_context_is_built(..))" % f.name)
        if not bad:
            obs.append(Obligation("R-DOM", oid, f.loc, f.name, text, True, "all reaching call chains are guarded", props=PROPS))
        elif f.name in exc:
            used.add(f.name)
            obs.append(Obligation("R-DOM", oid, f.loc, f.name, text, True,
                                  "unguarded chain %s; accepted by named exception" % " > ".join(bad[0][0]), exception=exc[f.name], props=PROPS))
        else:
            obs.append(Obligation("R-DOM", oid, bad[0][1], f.name, text, False,
                                  "unguarded chain %s (call at %s): on the static context it would read the unbuilt blinding state instead of "
                                  "reporting illegal use" % (" > ".join(bad[0][0]), bad[0][1]), props=PROPS))
    stale = sorted(set(exc) - used - {"_comment"})
    if stale:
        raise AnalysisBroken("R-DOM: exception entries that no longer apply: %s" % ", ".join(stale))
    if n_funcs < 20:
        raise AnalysisBroken("R-DOM: only %d exported functions reach the generator multiplication (floor 20)" % n_funcs)
    # (iii)
    f = prog.fn("secp256k1_musig_partial_sign")
    dom = f.dominators()
    saves = [(el, c) for el, c in f.all_calls() if callee_name(c) == "secp256k1_musig_partial_sig_save"]
    loads = [(el, c) for el, c in f.all_calls() if callee_name(c) == "secp256k1_musig_secnonce_load"]
    if not saves or not loads:
        raise AnalysisBroken("R-DOM: partial_sign no longer calls secnonce_load / partial_sig_save")
    for i, (el, c) in enumerate(saves):
        # some block that returns 0 when the load result is zero must dominate... equivalently: a branch on the load result dominates the save
        ok = False
        why = "no branch on the result of secnonce_load dominates the save"
        for d in dom.get(el.blk, ()):
            b = f.blocks[d]
            if b.cond is None or d == el.blk:
                continue
            vs = vars_in(b.cond) | {callee_name(x) for x in calls_in(b.cond)}
            # the load result variable
            lres = set()
            for el2, c2 in loads:
                for (n, op, rhs, via) in defs_in_elem(el2.e):
                    if via in ("assign", "decl") and rhs is not None and any(x is c2 for x in walk(rhs)):
                        lres.add(n)
            if (lres & vs) or "secp256k1_musig_secnonce_load" in vs:
                ok = True
                why = "dominated by the branch `%s` at %s" % (show(b.cond), b.term["loc"])
        obs.append(Obligation("R-DOM", "R-DOM:load-before-save:secp256k1_musig_partial_sign#%d" % (i + 1), c[2], f.name,
                              "a partial signature is produced only after secnonce_load succeeded (zeroed / foreign nonce objects yield no signature)",
                              ok, why, props={"C13", "C12"}))
    return obs, {"functions_reaching_ecmult_gen": n_funcs}


if __name__ == "__main__":
    obs, st = obligations(program("K0"))
    print(st, len(obs))
    for o in obs:
        if not o.ok:
            print("VIOL", o.oid, o.loc, o.detail[:160])


def static_ctx_obligations(prog):
    """R-SCTX — the converse of (ii): an exported function that cannot reach the generator multiplication has no use
    for a built context, so no built-context ARG_CHECK (GUARDS) may be reachable from it.  The header promises that
    secp256k1_context_static works for everything that does not sign / derive keys; a stray
    ARG_CHECK(secp256k1_context_is_proper(ctx)) in a verifier turns every call on the static context into the illegal
    callback (abort by default)."""
    g = prog.callgraph()
    reach = set(TARGETS)
    changed = True
    while changed:
        changed = False
        for fn, cs in g.items():
            if fn not in reach and cs & reach:
                reach.add(fn)
                changed = True
    memo = {}

    def guarded_somewhere(fname, depth=0):
        if fname in memo:
            return memo[fname]
        memo[fname] = None
        f = prog.functions.get(fname)
        if f is None or not f.blocks or depth > 12:
            return None
        gb = _guard_blocks(f)
        if gb:
            b = f.blocks[sorted(gb)[0]]
            memo[fname] = ([fname], b.term["loc"])
            return memo[fname]
        for el, c in f.all_calls():
            cal = callee_name(c)
            if cal and cal in prog.functions:
                r = guarded_somewhere(cal, depth + 1)
                if r:
                    memo[fname] = ([fname] + r[0], r[1])
                    return memo[fname]
        return None

    obs = []
    for f in sorted(prog.exported(), key=lambda x: x.name):
        if f.name in reach or f.name in SAFE or not f.blocks:
            continue
        if f.name.startswith("secp256k1_context_"):
            continue        # life-cycle / mutating calls: the static context must not be destroyed, cloned or modified (documented)
        r = guarded_somewhere(f.name)
        obs.append(Obligation("R-SCTX", "R-SCTX:%s" % f.name, r[1] if r else f.loc, f.name,
                              "%s never reaches the generator multiplication, so it must keep working on secp256k1_context_static: "
                              "no built-context ARG_CHECK may be reachable from it" % f.name, r is None,
                              "no built-context check in its call tree" if r is None else
                              "built-context ARG_CHECK at %s (chain %s): every call on the static context now invokes the illegal callback"
                              % (r[1], " > ".join(r[0]))))
    if len(obs) < 60:
        raise AnalysisBroken("R-SCTX: only %d exported functions outside the generator-multiplication cone (floor 60)" % len(obs))
    return obs, {"static_context_functions": len(obs)}
